package main

// C19: PrintCtx's buffer API behaves exactly like bytes.Buffer.
//
// Three-way lock-step: slog.PrintCtx (the implementation), bytes.Buffer (the
// DIRECT ORACLE: the property itself) and the Coq model (through the cases
// file).  After every op the results, error kinds / panic kinds, Len() and
// String() of PrintCtx and bytes.Buffer are compared; any difference is a
// failure with key C19/<op>.  A panic ends the history (in the model, the
// specification and here).

import (
	"bytes"
	"errors"
	"fmt"
	"io"
	"runtime"
	"strings"

	"github.com/hedzr/logg/slog"
)

func init() { drivers["C19"] = runC19; replayers["C19"] = replayC19 }

type bResp struct {
	D   []byte `json:"d,omitempty"`
	E   int    `json:"e,omitempty"` // 0 nil, 1 io.EOF, 2 another error
	Neg bool   `json:"neg,omitempty"`
}

type bOp struct {
	K string  `json:"k"`
	B []byte  `json:"b,omitempty"` // bytes / string argument; delimiter or byte in B[0]
	N int64   `json:"n,omitempty"` // size, rune, or the writer's count
	E bool    `json:"e,omitempty"` // the writer returns an error
	S []bResp `json:"s,omitempty"` // the reader's answers
}

type c19Replay struct {
	Kind string `json:"kind,omitempty"`
	Init []byte `json:"init"`
	Cap  int    `json:"cap"`
	Nil  bool   `json:"nil,omitempty"`
	Str  bool   `json:"str,omitempty"` // NewPrintCtxString / NewBufferString
	Ops  []bOp  `json:"ops"`
	Obs  any    `json:"observed,omitempty"`
	Exp  any    `json:"expected,omitempty"`
}

// the listed API; *slog.PrintCtx and *bytes.Buffer both have it
type bufAPI interface {
	Write([]byte) (int, error)
	WriteString(string) (int, error)
	WriteByte(byte) error
	WriteRune(rune) (int, error)
	Read([]byte) (int, error)
	ReadByte() (byte, error)
	ReadRune() (rune, int, error)
	UnreadByte() error
	UnreadRune() error
	Next(int) []byte
	ReadBytes(byte) ([]byte, error)
	ReadString(byte) (string, error)
	ReadFrom(io.Reader) (int64, error)
	WriteTo(io.Writer) (int64, error)
	Truncate(int)
	Grow(int)
	Reset()
	Len() int
	Bytes() []byte
	String() string
	Cap() int
}

var _ bufAPI = (*slog.PrintCtx)(nil)
var _ bufAPI = (*bytes.Buffer)(nil)

var errC19User = errors.New("c19: scripted failure")

// an error of the reader that WRAPS io.EOF is not io.EOF: bytes.Buffer.ReadFrom hands it back like any other error
var errC19Wrapped = fmt.Errorf("c19: scripted failure at the end of the input: %w", io.EOF)

type scriptReader struct {
	s []bResp
	i int
}

func (r *scriptReader) Read(p []byte) (int, error) {
	if r.i >= len(r.s) {
		return 0, io.EOF
	}
	x := r.s[r.i]
	r.i++
	if x.Neg {
		return -1, nil
	}
	n := copy(p, x.D)
	switch x.E {
	case 1:
		return n, io.EOF
	case 2:
		if (n+r.i)%2 == 1 {
			return n, errC19Wrapped
		}
		return n, errC19User
	}
	return n, nil
}

type scriptWriter struct {
	m      int
	e      bool
	got    []byte
	called bool
}

func (w *scriptWriter) Write(p []byte) (int, error) {
	w.called = true
	w.got = append([]byte{}, p...)
	if w.e {
		return w.m, errC19User
	}
	return w.m, nil
}

// one step's visible outcome
type bOut struct {
	Ns    []int64 `json:"ns,omitempty"`
	Bs    []byte  `json:"bs,omitempty"`
	Err   string  `json:"err,omitempty"`
	Panic string  `json:"panic,omitempty"`
}

func c19ErrKind(e error) string {
	switch {
	case e == nil:
		return ""
	case e == io.EOF:
		return "EOF"
	case e == io.ErrShortWrite:
		return "short"
	case e == errC19User || e == errC19Wrapped:
		return "user"
	}
	m := e.Error()
	switch {
	case strings.Contains(m, "UnreadByte: previous operation was not a successful read"):
		return "unreadbyte"
	case strings.Contains(m, "UnreadRune: previous operation was not a successful ReadRune"):
		return "unreadrune"
	}
	return "other:" + m
}

func c19PanicKind(v any) string {
	if e, ok := v.(runtime.Error); ok {
		m := e.Error()
		if strings.Contains(m, "out of range") {
			return "range"
		}
		return "runtime:" + m
	}
	if e, ok := v.(error); ok {
		if e == slog.ErrTooLarge || e == bytes.ErrTooLarge {
			return "toolarge"
		}
		if strings.Contains(e.Error(), "reader returned negative count from Read") {
			return "negread"
		}
		return "error:" + e.Error()
	}
	m := fmt.Sprint(v)
	switch {
	case strings.Contains(m, "truncation out of range"):
		return "truncate"
	case strings.Contains(m, "Grow: negative count"):
		return "growneg"
	case strings.Contains(m, "WriteTo: invalid Write count"):
		return "writetocount"
	}
	return "other:" + m
}

func c19Apply(b bufAPI, o bOp) (out bOut) {
	defer func() {
		if v := recover(); v != nil {
			out = bOut{Panic: c19PanicKind(v)}
		}
	}()
	cp := func(p []byte) []byte { return append([]byte{}, p...) }
	switch o.K {
	case "Write":
		n, e := b.Write(o.B)
		out = bOut{Ns: []int64{int64(n)}, Err: c19ErrKind(e)}
	case "WriteString":
		n, e := b.WriteString(string(o.B))
		out = bOut{Ns: []int64{int64(n)}, Err: c19ErrKind(e)}
	case "WriteByte":
		e := b.WriteByte(o.B[0])
		out = bOut{Err: c19ErrKind(e)}
	case "WriteRune":
		n, e := b.WriteRune(rune(int32(o.N)))
		out = bOut{Ns: []int64{int64(n)}, Err: c19ErrKind(e)}
	case "Read":
		p := make([]byte, o.N)
		n, e := b.Read(p)
		out = bOut{Ns: []int64{int64(n)}, Err: c19ErrKind(e)}
		if n >= 0 && n <= len(p) {
			out.Bs = cp(p[:n])
		}
	case "ReadByte":
		c, e := b.ReadByte()
		out = bOut{Ns: []int64{int64(c)}, Err: c19ErrKind(e)}
	case "ReadRune":
		r, n, e := b.ReadRune()
		out = bOut{Ns: []int64{int64(r), int64(n)}, Err: c19ErrKind(e)}
	case "UnreadByte":
		out = bOut{Err: c19ErrKind(b.UnreadByte())}
	case "UnreadRune":
		out = bOut{Err: c19ErrKind(b.UnreadRune())}
	case "Next":
		out = bOut{Bs: cp(b.Next(int(o.N)))}
	case "ReadBytes":
		l, e := b.ReadBytes(o.B[0])
		out = bOut{Bs: cp(l), Err: c19ErrKind(e)}
		for i := range l { // the line is the caller's own copy: scribbling over it does not reach the buffer
			l[i] ^= 0xff
		}
	case "ReadString":
		l, e := b.ReadString(o.B[0])
		out = bOut{Bs: []byte(l), Err: c19ErrKind(e)}
	case "ReadFrom":
		n, e := b.ReadFrom(&scriptReader{s: o.S})
		out = bOut{Ns: []int64{n}, Err: c19ErrKind(e)}
	case "WriteTo":
		w := &scriptWriter{m: int(o.N), e: o.E}
		n, e := b.WriteTo(w)
		out = bOut{Ns: []int64{n}, Bs: w.got, Err: c19ErrKind(e)}
	case "Truncate":
		b.Truncate(int(o.N))
	case "Grow":
		b.Grow(int(o.N))
	case "Reset":
		b.Reset()
	case "Len":
		out = bOut{Ns: []int64{int64(b.Len())}}
	case "Bytes":
		out = bOut{Bs: cp(b.Bytes())}
	case "String":
		out = bOut{Bs: []byte(b.String())}
	default:
		panic("c19: unknown op " + o.K)
	}
	return out
}

func c19OutEq(a, b bOut) bool {
	if a.Err != b.Err || a.Panic != b.Panic || len(a.Ns) != len(b.Ns) || !bytes.Equal(a.Bs, b.Bs) {
		return false
	}
	for i := range a.Ns {
		if a.Ns[i] != b.Ns[i] {
			return false
		}
	}
	return true
}

// Len()/String() must never panic; a broken implementation may make them
type bState struct {
	Len   int    `json:"len"`
	Str   []byte `json:"str"`
	Cap   int    `json:"cap"`
	Panic string `json:"panic,omitempty"`
}

func c19State(b bufAPI) (st bState) {
	defer func() {
		if v := recover(); v != nil {
			st = bState{Panic: c19PanicKind(v)}
		}
	}()
	return bState{Len: b.Len(), Str: []byte(b.String()), Cap: b.Cap()}
}

type bStep struct {
	Out bOut   `json:"out"`
	St  bState `json:"state"`
}

type c19Trace struct {
	Cap0     int
	Steps    []bStep // of PrintCtx
	FailAt   int     // first op where PrintCtx and bytes.Buffer differ, or -1
	FailDesc string
	Exp      *bStep // bytes.Buffer's step at FailAt
	CapMoved bool   // Cap() changed during the run
	CapDiff  bool   // Cap() of the two differed at some step (not part of the property)
}

func c19New(init []byte, capacity int, isNil, str bool) (bufAPI, bufAPI) {
	if str {
		return slog.NewPrintCtxString(string(init)), bytes.NewBufferString(string(init))
	}
	if isNil {
		return slog.NewPrintCtx(nil), bytes.NewBuffer(nil)
	}
	mk := func() []byte {
		b := make([]byte, len(init), capacity)
		copy(b, init)
		return b
	}
	return slog.NewPrintCtx(mk()), bytes.NewBuffer(mk())
}

// c19Lockstep runs ops on both; when next != nil the ops are generated on the
// fly from the oracle's state (adaptive sizes) and returned.
// c19FlagTurn: the buffer API is no logging call - the process-wide termination flags (LnoInterrupt, Linterruptalways) do
// not enter; every lock-step run takes the next of their four combinations
var c19FlagTurn int

func c19Lockstep(init []byte, capacity int, isNil, str bool, ops []bOp, n int, next func(b bufAPI) bOp) (c19Trace, []bOp) {
	c19FlagTurn++
	slog.RemoveFlags(slog.LnoInterrupt, slog.Linterruptalways)
	if c19FlagTurn&1 != 0 {
		slog.AddFlags(slog.LnoInterrupt)
	}
	if c19FlagTurn&2 != 0 {
		slog.AddFlags(slog.Linterruptalways)
	}
	p, b := c19New(init, capacity, isNil, str)
	tr := c19Trace{FailAt: -1, Cap0: p.Cap()}
	if s0, s1 := c19State(p), c19State(b); s0.Len != s1.Len || !bytes.Equal(s0.Str, s1.Str) || s0.Panic != s1.Panic {
		tr.FailAt, tr.FailDesc = 0, fmt.Sprintf("initial state: Len/String %d/%q, bytes.Buffer %d/%q", s0.Len, s0.Str, s1.Len, s1.Str)
	}
	var done []bOp
	for i := 0; (next != nil && i < n) || (next == nil && i < len(ops)); i++ {
		var o bOp
		if next != nil {
			o = next(b)
		} else {
			o = ops[i]
		}
		done = append(done, o)
		op, ob := c19Apply(p, o), c19Apply(b, o)
		sp, sb := c19State(p), c19State(b)
		tr.Steps = append(tr.Steps, bStep{op, sp})
		if sp.Cap != tr.Cap0 {
			tr.CapMoved = true
		}
		if sp.Cap != sb.Cap {
			tr.CapDiff = true
		}
		if tr.FailAt < 0 {
			var d string
			switch {
			case op.Panic != ob.Panic:
				d = fmt.Sprintf("panic %q, bytes.Buffer %q", op.Panic, ob.Panic)
			case !c19OutEq(op, ob):
				d = fmt.Sprintf("result %+v, bytes.Buffer %+v", op, ob)
			case sp.Panic != sb.Panic:
				d = fmt.Sprintf("Len/String panic %q, bytes.Buffer %q", sp.Panic, sb.Panic)
			case sp.Len != sb.Len:
				d = fmt.Sprintf("Len() %d, bytes.Buffer %d", sp.Len, sb.Len)
			case !bytes.Equal(sp.Str, sb.Str):
				d = fmt.Sprintf("String() %q, bytes.Buffer %q", sp.Str, sb.Str)
			}
			if d != "" {
				tr.FailAt, tr.FailDesc = i, fmt.Sprintf("op %d %s: %s", i, o.K, d)
				tr.Exp = &bStep{ob, sb}
			}
		}
		if op.Panic != "" || ob.Panic != "" || sp.Panic != "" || sb.Panic != "" {
			// a panic ends the history as far as the model goes; a program that recovered goes on, though: a short
			// fixed tail on both (direct comparison only): the two must still agree
			if tr.FailAt < 0 && op.Panic != "" && op.Panic == ob.Panic {
				for _, k := range []string{"UnreadRune", "UnreadByte", "ReadByte", "WriteByte", "ReadRune", "UnreadRune"} {
					t := bOp{K: k, B: []byte{'x'}}
					tp, tb := c19Apply(p, t), c19Apply(b, t)
					xp, xb := c19State(p), c19State(b)
					if tp.Panic != tb.Panic || !c19OutEq(tp, tb) || xp.Len != xb.Len || !bytes.Equal(xp.Str, xb.Str) {
						tr.FailAt = i
						tr.FailDesc = fmt.Sprintf("op %d %s panicked (%s) on both; the program recovers and goes on with %s: result %+v Len %d String %q, bytes.Buffer %+v Len %d String %q",
							i, o.K, op.Panic, k, tp, xp.Len, xp.Str, tb, xb.Len, xb.Str)
						break
					}
					if tp.Panic != "" {
						break
					}
				}
			}
			break
		}
	}
	return tr, done
}

// ---- Gallina printing ----
func c19OpCoq(o bOp) string {
	switch o.K {
	case "Write", "WriteString":
		return fmt.Sprintf("O%s %s", o.K, cBytes(o.B))
	case "WriteByte", "ReadBytes", "ReadString":
		return fmt.Sprintf("O%s x%02x", o.K, o.B[0])
	case "WriteRune", "Read", "Next", "Truncate", "Grow":
		return fmt.Sprintf("O%s %s", o.K, cZ(o.N))
	case "ReadFrom":
		var it []string
		for _, x := range o.S {
			if x.Neg {
				it = append(it, "RNeg")
			} else {
				it = append(it, fmt.Sprintf("RData %s %s", cBytes(x.D), []string{"RNil", "REOF", "RErr"}[x.E]))
			}
		}
		return "OReadFrom " + cList(it)
	case "WriteTo":
		return fmt.Sprintf("OWriteTo %s %s", cZ(o.N), cBool(o.E))
	}
	return "O" + o.K
}

func c19OpsCoq(ops []bOp) string {
	it := make([]string, len(ops))
	for i, o := range ops {
		it[i] = c19OpCoq(o)
	}
	return cList(it)
}

func c19OutCoq(o bOut) string {
	if o.Panic != "" {
		if c, ok := map[string]string{"toolarge": "PTooLarge", "negread": "PNegRead", "truncate": "PTruncate",
			"growneg": "PGrowNeg", "writetocount": "PWriteToCount", "range": "PRange"}[o.Panic]; ok {
			return "Panicked " + c
		}
		return "Stuck" // a panic the model does not have: never equal to the model's result
	}
	e, ok := map[string]string{"": "ENil", "EOF": "EEOF", "unreadbyte": "EUnreadByte", "unreadrune": "EUnreadRune",
		"short": "EShortWrite", "user": "EUser"}[o.Err]
	if !ok {
		return "Stuck"
	}
	return fmt.Sprintf("Res %s %s %s", cZs(o.Ns), cBytes(o.Bs), e)
}

// c19Delta writes cur as pre ++ old[skip:skip+keep] ++ suf (Corr/C19.v apply_delta).
func c19Delta(old, cur []byte) string {
	mk := func(pre []byte, skip, keep int, suf []byte) string {
		return fmt.Sprintf("(%s, %s, %s, %s)", cBytes(pre), cZ(int64(skip)), cZ(int64(keep)), cBytes(suf))
	}
	for skip := 0; skip <= len(old); skip++ { // consumed at the front, appended at the back
		if bytes.HasPrefix(cur, old[skip:]) {
			if skip == len(old) && len(old) > 0 {
				break
			}
			return mk(nil, skip, len(old)-skip, cur[len(old)-skip:])
		}
	}
	if bytes.HasPrefix(old, cur) { // cut at the back
		return mk(nil, 0, len(cur), nil)
	}
	if bytes.HasSuffix(cur, old) { // given back at the front
		return mk(cur[:len(cur)-len(old)], 0, len(old), nil)
	}
	return mk(cur, 0, 0, nil)
}

func c19CaseCoq(init []byte, cap0 int, isNil, cmpcap bool, ops []bOp, steps []bStep) string {
	it := make([]string, len(steps))
	old := init
	for i, s := range steps {
		it[i] = fmt.Sprintf("(%s, %s, %s, %s)", c19OutCoq(s.Out), cZ(int64(s.St.Len)), c19Delta(old, s.St.Str), cZ(int64(s.St.Cap)))
		old = s.St.Str
	}
	return fmt.Sprintf("mk %s %s %s %s %s\n %s", cBytes(init), cZ(int64(cap0)), cBool(isNil), cBool(cmpcap), c19OpsCoq(ops), cList(it))
}

// ---- Go 1.23 size classes (the same table as Model/Buffer.v go_rup) ----
var c19Classes = []int{8, 16, 24, 32, 48, 64, 80, 96, 112, 128, 144, 160, 176, 192, 208, 224, 240, 256, 288, 320,
	352, 384, 416, 448, 480, 512, 576, 640, 704, 768, 896, 1024, 1152, 1280, 1408, 1536, 1792,
	2048, 2304, 2688, 3072, 3200, 3456, 4096, 4864, 5376, 6144, 6528, 6784, 6912, 8192, 9472,
	9728, 10240, 10880, 12288, 13568, 14336, 16384, 18432, 19072, 20480, 21760, 24576, 27264,
	28672, 32768}

func c19Rup(c int) int {
	if c <= 0 {
		return 0
	}
	for _, x := range c19Classes {
		if c <= x {
			return x
		}
	}
	return (c + 8191) / 8192 * 8192
}

// does append([]byte(nil), make([]byte, c)...) on this Go give the table's capacity?
func c19RupHolds() bool {
	probe := func(c int) bool {
		return cap(append([]byte(nil), make([]byte, c)...)) == c19Rup(c)
	}
	for c := 1; c <= 2100; c++ {
		if !probe(c) {
			return false
		}
	}
	for _, x := range c19Classes {
		if !probe(x) || !probe(x+1) || !probe(x-1) {
			return false
		}
	}
	for _, c := range []int{32769, 40000, 40960, 40961, 65536, 65537, 100000, 1 << 20, 1<<20 + 1} {
		if !probe(c) {
			return false
		}
	}
	return true
}

// ---- generator ----
var c19Kinds = []struct {
	k string
	w int
}{{"Write", 14}, {"WriteString", 8}, {"WriteByte", 7}, {"WriteRune", 8}, {"Read", 10}, {"ReadByte", 6}, {"ReadRune", 9},
	{"UnreadByte", 7}, {"UnreadRune", 7}, {"Next", 6}, {"ReadBytes", 4}, {"ReadString", 3}, {"ReadFrom", 5}, {"WriteTo", 4},
	{"Truncate", 4}, {"Grow", 7}, {"Reset", 2}, {"Len", 1}, {"Bytes", 1}, {"String", 1}}

var c19Runes = []int64{'a', 0, 0x7f, 0x80, 0xe9, 0x7ff, 0x800, 0x20ac, 0xd7ff, 0xd800, 0xdfff, 0xe000, 0xfffd, 0xffff,
	0x10000, 0x1f600, 0x10ffff, 0x110000, -1, -128, 1<<31 - 1, -(1 << 31)}

func c19Bytes(g *Rng, n int) []byte {
	b := make([]byte, 0, n)
	for len(b) < n {
		switch x := g.Intn(100); {
		case x < 55:
			b = append(b, "ab\n,x"[g.Intn(5)])
		case x < 70:
			b = append(b, byte(0x20+g.Intn(0x5f)))
		case x < 82:
			b = append(b, byte(0x80+g.Intn(0x80)))
		case x < 86:
			b = append(b, byte(g.Intn(256)))
		case x < 90: // over-long and otherwise malformed two- and three-byte forms (a continuation byte does follow)
			b = append(b, [][]byte{{0xc0, 0x80}, {0xc1, 0xbf}, {0xc0, 0xaf}, {0xe0, 0x80, 0x80}, {0xed, 0xa0, 0x80}, {0xf0, 0x80, 0x80, 0x80}, {0xf4, 0x90, 0x80, 0x80}, {0xc2, 0x41}}[g.Intn(8)]...)
		default:
			b = append(b, []byte(string(rune(c19Runes[2+g.Intn(15)])))...)
		}
	}
	return b[:n]
}

// a size near one of the thresholds of the current state
func c19Size(g *Rng, b bufAPI, small bool) int {
	l, c := b.Len(), b.Cap()
	avail := c - l // an upper bound of cap-len(buf) (off unknown): still near the boundary often enough
	cands := []int{0, 1, 2, 3, 4, 5, avail - 1, avail, avail + 1, c/2 - l - 1, c/2 - l, c/2 - l + 1, c - l + 1,
		63, 64, 65, g.Intn(12), g.Intn(12), g.Intn(40), g.Intn(40)}
	if !small {
		cands = append(cands, 511, 512, 513, g.Intn(300), g.Intn(700), 2*c+1)
	}
	n := cands[g.Intn(len(cands))]
	max := 1300
	if small {
		max = 150
	}
	if n < 0 {
		n = 0
	}
	if n > max {
		n = max
	}
	return n
}

func c19GenOp(g *Rng, b bufAPI, small bool) bOp {
	tot := 0
	for _, k := range c19Kinds {
		tot += k.w
	}
	x := g.Intn(tot)
	kind := ""
	for _, k := range c19Kinds {
		if x < k.w {
			kind = k.k
			break
		}
		x -= k.w
	}
	l := b.Len()
	o := bOp{K: kind}
	switch kind {
	case "Write", "WriteString":
		o.B = c19Bytes(g, c19Size(g, b, small))
	case "WriteByte":
		o.B = c19Bytes(g, 1)
	case "ReadBytes", "ReadString":
		o.B = []byte{"ab\n,x\xac"[g.Intn(6)]}
	case "WriteRune":
		if g.Chance(75) {
			o.N = c19Runes[g.Intn(len(c19Runes))]
		} else {
			o.N = int64(int32(g.U64()))
			if g.Bool() {
				o.N = int64(g.Intn(0x11000))
			}
		}
	case "Read":
		o.N = int64([]int{0, 1, 2, 3, 4, l - 1, l, l + 1, l / 2, g.Intn(20), 600}[g.Intn(11)])
		if o.N < 0 {
			o.N = 0
		}
	case "Next":
		o.N = int64([]int{0, 1, 2, 3, l - 1, l, l + 1, l / 2, g.Intn(20), 1 << 40}[g.Intn(10)])
		if g.Chance(3) {
			o.N = int64(-1 - g.Intn(3))
		}
	case "Truncate":
		o.N = int64([]int{0, l, l - 1, l / 2, 1, g.Intn(l + 1)}[g.Intn(6)])
		if o.N < 0 {
			o.N = 0
		}
		if g.Chance(5) {
			o.N = int64([]int{-1, l + 1, l + 100, -(1 << 40)}[g.Intn(4)])
		}
	case "Grow":
		o.N = int64(c19Size(g, b, small))
		if g.Chance(3) {
			o.N = int64(-1 - g.Intn(2))
		} else if g.Chance(2) { // beyond any allocation: ErrTooLarge (nothing between 2^13 and 2^50 is ever asked for)
			o.N = []int64{1 << 62, 1<<50 + int64(g.Intn(100)), 1<<63 - 1, 1<<63 - 1 - int64(b.Cap())}[g.Intn(4)]
		}
	case "ReadFrom":
		for i, n := 0, g.Intn(4); i < n; i++ {
			r := bResp{}
			if g.Chance(4) {
				r.Neg = true
			} else {
				sz := []int{0, 0, 1, g.Intn(10), g.Intn(60), 64}[g.Intn(6)]
				if !small {
					sz = []int{0, 1, g.Intn(10), g.Intn(100), 511, 512, 512, g.Intn(513)}[g.Intn(8)]
				}
				r.D = c19Bytes(g, sz)
				r.E = []int{0, 0, 0, 1, 2}[g.Intn(5)]
			}
			o.S = append(o.S, r)
		}
	case "WriteTo":
		o.N = int64([]int{l, l, l, 0, l - 1, l / 2, 1}[g.Intn(7)])
		if o.N < 0 || int(o.N) > l {
			o.N = 0
		}
		if g.Chance(4) {
			o.N = int64(l + 1 + g.Intn(2))
		}
		o.E = g.Chance(25)
	}
	return o
}

type c19Start struct {
	init     []byte
	capacity int
	isNil    bool
	str      bool
}

func c19GenStart(g *Rng, small bool) c19Start {
	switch x := g.Intn(100); {
	case x < 35:
		return c19Start{isNil: true}
	case x < 50:
		n := []int{0, 1, 5, 7, 8, 9, 31, 32, 33, 63, 64, 65}[g.Intn(12)]
		return c19Start{init: c19Bytes(g, n), str: true}
	}
	caps := []int{0, 1, 2, 4, 8, 16, 32, 63, 64, 65, 100, 128}
	if !small {
		caps = append(caps, 511, 512, 513, 600, 1024, 1100)
	}
	c := caps[g.Intn(len(caps))]
	l := []int{0, c, c / 2, c/2 + 1, g.Intn(c + 1), g.Intn(c + 1)}[g.Intn(6)]
	if small && l > 80 {
		l = g.Intn(80)
	}
	if l > c {
		l = c
	}
	return c19Start{init: c19Bytes(g, l), capacity: c}
}

// ---- failure handling: shrink (greedy deletion), report ----
func c19Fails(st c19Start, ops []bOp) (c19Trace, []bOp, bool) {
	tr, done := c19Lockstep(st.init, st.capacity, st.isNil, st.str, ops, 0, nil)
	return tr, done, tr.FailAt >= 0
}

func c19Report(r *Run, st c19Start, ops []bOp) {
	tr, done, bad := c19Fails(st, ops)
	if !bad {
		return
	}
	ops = done[:min(len(done), tr.FailAt+1)]
	for changed := true; changed; {
		changed = false
		for i := len(ops) - 1; i >= 0; i-- {
			cand := append(append([]bOp{}, ops[:i]...), ops[i+1:]...)
			if t2, d2, b2 := c19Fails(st, cand); b2 {
				ops = d2[:min(len(d2), t2.FailAt+1)]
				changed = true
				if i > len(ops) {
					i = len(ops)
				}
			}
		}
		// shorter arguments
		for i := range ops {
			try := func(o bOp) {
				cand := append([]bOp{}, ops...)
				cand[i] = o
				if t2, d2, b2 := c19Fails(st, cand); b2 && len(d2[:min(len(d2), t2.FailAt+1)]) <= len(ops) {
					ops, changed = d2[:min(len(d2), t2.FailAt+1)], true
				}
			}
			if i < len(ops) && (ops[i].K == "Write" || ops[i].K == "WriteString") && len(ops[i].B) > 1 {
				o := ops[i]
				o.B = o.B[:len(o.B)/2]
				try(o)
			}
			if i < len(ops) && ops[i].K == "ReadFrom" && len(ops[i].S) > 0 {
				o := ops[i]
				o.S = o.S[:len(o.S)-1]
				try(o)
			}
		}
		// a simpler start
		if !st.isNil {
			s2 := c19Start{isNil: true}
			if t2, d2, b2 := c19Fails(s2, ops); b2 {
				st, ops, changed = s2, d2[:min(len(d2), t2.FailAt+1)], true
			}
		}
	}
	tr, _, _ = c19Fails(st, ops)
	k := "?"
	if tr.FailAt >= 0 && tr.FailAt < len(ops) {
		k = ops[tr.FailAt].K
	} else if len(ops) == 0 {
		k = "New"
	}
	rep := c19Replay{Init: st.init, Cap: st.capacity, Nil: st.isNil, Str: st.str, Ops: ops, Obs: tr.Steps, Exp: tr.Exp}
	r.Fail("C19/"+k, tr.FailDesc, rep)
}

func c19Record(r *Run, st c19Start, ops []bOp, tr c19Trace, kind string, cmpcap, asCase bool) {
	canon := fmt.Sprintf("%s|%d|%v|%s", cBytes(st.init), tr.Cap0, st.isNil, c19OpsCoq(ops))
	if asCase {
		rep := c19Replay{Init: st.init, Cap: tr.Cap0, Nil: st.isNil, Str: st.str, Ops: ops}
		isNil := st.isNil && !st.str
		r.AddCase(c19CaseCoq(st.init, tr.Cap0, isNil, cmpcap, ops, tr.Steps), rep, tr.CapMoved, canon)
	} else {
		r.Count(tr.CapMoved, canon)
	}
	r.Dist["kind="+kind]++
	r.Dist[fmt.Sprintf("len=%02d-%02d", len(ops)/10*10, len(ops)/10*10+9)]++
	if tr.CapMoved {
		r.Dist["growth=yes"]++
	}
	if tr.CapDiff {
		r.Dist["cap_differs_from_bytes.Buffer"]++
	}
	for i, s := range tr.Steps {
		r.Dist["op="+ops[i].K]++
		if s.Out.Err != "" {
			r.Dist["err="+s.Out.Err]++
		}
		if s.Out.Panic != "" {
			r.Dist["panic="+s.Out.Panic]++
		}
	}
	if tr.FailAt >= 0 {
		c19Report(r, st, ops)
	}
}

func runC19(r *Run) {
	r.Coq("Require Import Verif.Model.Base Verif.Model.Utf8 Verif.Model.Buffer Verif.Corr.C19.", "case", "ok")
	r.ShardSize = 60
	r.Rule = "random op sequences (length <= 60) generated adaptively near the 64-byte, half-capacity, spare-capacity and 512-byte thresholds, from nil / pre-filled / string starts; thorough adds every sequence of length <= 3 over a 25-op alphabet from two starts; non-trivial = Cap() changed during the run; distinct by start + op list"
	cmpcap := c19RupHolds()
	r.Extra["size_class_table_confirmed_on_this_go"] = cmpcap
	r.Extra["after_panic"] = "the history ends at the first panic for the model and the specification; results, Len and String are compared for the panicking step too, and a fixed tail of six more calls (UnreadRune, UnreadByte, ReadByte, WriteByte, ReadRune, UnreadRune) is run on both after the recovered panic and compared directly"

	// fixed regression sequences (quirks the specification has to describe)
	e := []byte("\xe2\x82\xac")
	fixed := [][]bOp{
		{{K: "Write", B: []byte("ab")}, {K: "ReadByte"}, {K: "ReadByte"}, {K: "ReadBytes", B: []byte("\n")}, {K: "UnreadByte"}, {K: "String"}},
		{{K: "Write", B: e}, {K: "ReadRune"}, {K: "Grow", N: 1000}, {K: "UnreadRune"}, {K: "String"}},
		{{K: "Write", B: e}, {K: "ReadRune"}, {K: "Grow", N: 10}, {K: "UnreadRune"}, {K: "String"}},
		{{K: "Write", B: []byte("abc")}, {K: "ReadByte"}, {K: "Grow", N: 62}, {K: "UnreadByte"}, {K: "Grow", N: 200}, {K: "String"}},
		{{K: "ReadBytes", B: []byte("a")}, {K: "Grow", N: 10}, {K: "UnreadByte"}, {K: "UnreadByte"}},
		{{K: "Write", B: []byte("a")}, {K: "ReadByte"}, {K: "ReadString", B: []byte("a")}, {K: "Grow", N: 0}, {K: "UnreadByte"}},
		{{K: "Grow", N: 1 << 62}},
		{{K: "Write", B: []byte("a")}, {K: "Grow", N: 1<<63 - 1}},
		// malformed UTF-8 in front of ReadRune: over-long two-byte forms, a surrogate, a lead byte without its continuation
		{{K: "Write", B: []byte("a\xc0\x80z")}, {K: "ReadRune"}, {K: "ReadRune"}, {K: "UnreadRune"}, {K: "ReadRune"}, {K: "ReadRune"}, {K: "ReadRune"}, {K: "String"}},
		{{K: "Write", B: []byte("\xc1\xbf\xed\xa0\x80\xc2")}, {K: "ReadRune"}, {K: "ReadRune"}, {K: "ReadRune"}, {K: "UnreadRune"}, {K: "ReadRune"}, {K: "ReadRune"}, {K: "ReadRune"}, {K: "ReadRune"}, {K: "Len"}},
		// an empty write is a write: it ends the chance to unread
		{{K: "Write", B: []byte("abc")}, {K: "ReadByte"}, {K: "WriteString", B: []byte("")}, {K: "UnreadByte"}, {K: "String"}},
		{{K: "Write", B: []byte("\xe2\x82\xacx")}, {K: "ReadRune"}, {K: "WriteString", B: []byte("")}, {K: "UnreadRune"}, {K: "String"}},
		{{K: "Write", B: []byte("abc")}, {K: "ReadByte"}, {K: "Write", B: []byte("")}, {K: "UnreadByte"}, {K: "String"}},
		{{K: "WriteRune", N: -1}, {K: "WriteRune", N: 0xd800}, {K: "ReadRune"}, {K: "UnreadByte"}, {K: "ReadRune"}, {K: "UnreadRune"}, {K: "UnreadRune"}},
		{{K: "Write", B: bytes.Repeat([]byte("a"), 33)}, {K: "Read", N: 20}, {K: "Write", B: bytes.Repeat([]byte("b"), 19)}, {K: "Write", B: bytes.Repeat([]byte("c"), 40)}, {K: "String"}},
		{{K: "ReadFrom", S: []bResp{{D: []byte("x")}, {}, {D: bytes.Repeat([]byte("y"), 512)}, {Neg: true}}}},
		{{K: "Write", B: []byte("abc")}, {K: "WriteTo", N: 3, E: true}, {K: "ReadBytes", B: []byte("a")}, {K: "UnreadByte"}, {K: "WriteTo", N: 2}},
	}
	for _, ops := range fixed {
		for _, st := range []c19Start{{isNil: true}, {init: []byte("q"), capacity: 3}} {
			tr, done := c19Lockstep(st.init, st.capacity, st.isNil, st.str, ops, 0, nil)
			c19Record(r, st, done, tr, "fixed", cmpcap, true)
		}
	}

	if r.Thorough() {
		alpha := []bOp{
			{K: "Write", B: []byte("ab")}, {K: "Write", B: []byte{}}, {K: "WriteString", B: []byte("\xe2\x82\xacx")},
			{K: "WriteByte", B: []byte("c")}, {K: "WriteRune", N: 0x20ac}, {K: "WriteRune", N: -1},
			{K: "Read", N: 0}, {K: "Read", N: 1}, {K: "Read", N: 3}, {K: "ReadByte"}, {K: "ReadRune"},
			{K: "UnreadByte"}, {K: "UnreadRune"}, {K: "Next", N: 1}, {K: "Next", N: 5}, {K: "Next", N: -1},
			{K: "ReadBytes", B: []byte("b")}, {K: "ReadString", B: []byte("x")},
			{K: "ReadFrom", S: []bResp{{D: []byte("xy")}, {D: nil, E: 1}}},
			{K: "WriteTo", N: 1, E: true}, {K: "WriteTo", N: 1 << 20},
			{K: "Truncate", N: 1}, {K: "Truncate", N: 0}, {K: "Grow", N: 0}, {K: "Grow", N: 3}, {K: "Reset"},
		}
		starts := []c19Start{{isNil: true}, {init: []byte("\xe2\x82\xacb"), capacity: 6}}
		var rec func(prefix []bOp, d int)
		rec = func(prefix []bOp, d int) {
			if d > 0 {
				for _, st := range starts {
					ops := append([]bOp{}, prefix...)
					for i := range ops { // "WriteTo everything": the count is the current length
						if ops[i].K == "WriteTo" && ops[i].N == 1<<20 {
							ops[i].N = -7
						}
					}
					tr, done := c19LockstepFull(st, ops)
					c19Record(r, st, done, tr, "exhaustive", cmpcap, true)
				}
			}
			if d == 3 {
				return
			}
			for _, a := range alpha {
				rec(append(append([]bOp{}, prefix...), a), d+1)
			}
		}
		rec(nil, 0)
		r.Exhaust = true
		r.Extra["exhaustive_space"] = fmt.Sprintf("all sequences of length 1..3 over %d fixed calls, from %d starts", len(alpha), len(starts))
	}

	total := r.N(500, 50000)
	ascases := r.N(500, 4000)
	for i := 0; i < total; i++ {
		g := r.R.Fork()
		small := g.Chance(70)
		st := c19GenStart(g, small)
		n := 1 + g.Intn(60)
		if g.Chance(30) {
			n = 40 + g.Intn(21)
		}
		tr, ops := c19Lockstep(st.init, st.capacity, st.isNil, st.str, nil, n, func(b bufAPI) bOp { return c19GenOp(g, b, small) })
		c19Record(r, st, ops, tr, "random", cmpcap, i < ascases)
	}
	c19LiveEncoder(r)
}

// c19LockstepFull resolves the placeholder count -7 of WriteTo ("the writer
// takes everything") against the oracle's current length.
func c19LockstepFull(st c19Start, ops []bOp) (c19Trace, []bOp) {
	i := 0
	return c19Lockstep(st.init, st.capacity, st.isNil, st.str, nil, len(ops), func(b bufAPI) bOp {
		o := ops[i]
		i++
		if o.K == "WriteTo" && o.N == -7 {
			o.N = int64(b.Len())
		}
		return o
	})
}

func replayC19(r *Run, file string) {
	var in c19Replay
	loadReplay(file, &in)
	r.Coq("Require Import Verif.Model.Base Verif.Model.Utf8 Verif.Model.Buffer Verif.Corr.C19.", "case", "ok")
	if in.Kind == "live-encoder" { // a finding of the live-encoder scenario (c19_live.go): run it again
		c19LiveEncoder(r)
		finishReplay(r)
		return
	}
	st := c19Start{init: in.Init, capacity: in.Cap, isNil: in.Nil, str: in.Str}
	tr, done := c19Lockstep(st.init, st.capacity, st.isNil, st.str, in.Ops, 0, nil)
	for i, s := range tr.Steps {
		fmt.Printf("  %2d %-70s -> %+v len=%d str=%q\n", i, c19OpCoq(done[i]), s.Out, s.St.Len, s.St.Str)
	}
	c19Record(r, st, done, tr, "replay", c19RupHolds(), true)
	finishReplay(r)
}
