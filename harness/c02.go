package main

// C02: exactly-once delivery - each admitted call is one whole Write, for any arguments.

import (
	"bytes"
	"context"
	"encoding/json"
	"errors"
	"fmt"
	"reflect"
	"regexp"
	"sort"
	"strconv"
	"strings"
	"syscall"

	"github.com/hedzr/is"
	"github.com/hedzr/logg/slog"
)

func init() { drivers["C02"] = runC02; replayers["C02"] = replayC02 }

// ---- one item of the argument list ----
type C02Arg struct {
	Kind  string  `json:"kind"` // str | attr | attrs | attrslice | val | xval | opaque
	S     string  `json:"s,omitempty"`
	Attrs []GAttr `json:"attrs,omitempty"`
	NilSl bool    `json:"nil_slice,omitempty"` // attrs / attrslice: the nil slice
	Val   *GVal   `json:"val,omitempty"`
	X     string  `json:"x,omitempty"` // xval / opaque: which value
}

type textOnlyT struct{ s string }

func (t textOnlyT) MarshalText() ([]byte, error) { return []byte(t.s), nil }

type jsonOnlyT struct{ n int }

func (t jsonOnlyT) MarshalJSON() ([]byte, error) { return []byte(strconv.Itoa(t.n)), nil }

var c02XKinds = []string{"ptrstruct", "nilptr", "func", "chan", "mapslice", "array", "uintptr", "anys", "ptrint", "nested", "anonstruct", "emptystruct", "mapiface"}
var c02OpaqueKinds = []string{"rawjson", "textonly", "jsononly"}

var c02Chan = make(chan int)
var c02Int = 7

func c02Func() {}

// Go builds the value handed to logg (built once per call: pointer-like values print their address)
func (a C02Arg) Go() any {
	switch a.Kind {
	case "str":
		return a.S
	case "attr":
		return attrsGo(a.Attrs)[0]
	case "attrs":
		if a.NilSl {
			return slog.Attrs(nil)
		}
		return append(slog.Attrs{}, attrsGo(a.Attrs)...)
	case "attrslice":
		if a.NilSl {
			return []slog.Attr(nil)
		}
		return append([]slog.Attr{}, attrsGo(a.Attrs)...)
	case "val":
		return a.Val.Go()
	case "xval":
		switch a.X {
		case "ptrstruct":
			return &structT{3, "p"}
		case "nilptr":
			return (*structT)(nil)
		case "func":
			return c02Func
		case "chan":
			return c02Chan
		case "mapslice":
			return map[string][]int{"a": {1, 2}}
		case "array":
			return [2]int{1, 2}
		case "uintptr":
			return uintptr(77)
		case "anys":
			return []any{1, "a", nil, 2.5}
		case "ptrint":
			return &c02Int
		case "nested":
			return [][]string{{"a"}, {"b", "c"}}
		case "anonstruct":
			return struct {
				P *int
				S []string
			}{nil, []string{"q"}}
		case "emptystruct":
			return struct{}{}
		case "mapiface":
			return map[string]any{"f": c02Func == nil, "n": nil}
		}
	case "opaque":
		switch a.X {
		case "rawjson":
			return json.RawMessage(`{"a":1}`)
		case "textonly":
			return textOnlyT{"t x"}
		case "jsononly":
			return jsonOnlyT{5}
		}
	}
	panic("C02Arg.Go: " + a.Kind + "/" + a.X)
}

// Coq is the Model/Args.v term of the item; v is the value that was handed to logg
func (a C02Arg) Coq(v any) string {
	switch a.Kind {
	case "str":
		return "AStr " + cStr(a.S)
	case "attr":
		return "AAttr (" + strings.TrimSuffix(strings.TrimPrefix(attrsCoq(a.Attrs), "["), "]") + ")"
	case "attrs":
		return "AAttrs " + attrsCoq(a.Attrs)
	case "attrslice":
		return "AAttrSlice " + attrsCoq(a.Attrs)
	case "val":
		return "AOther " + a.Val.Coq()
	case "xval":
		return "AOther (VFallback " + cStr(fmt.Sprintf("{{%v}}", v)) + ")"
	}
	return "AOpaque"
}

func (a C02Arg) isString() bool { return a.Kind == "str" }
func (a C02Arg) isContainer() bool {
	return a.Kind == "attr" || a.Kind == "attrs" || a.Kind == "attrslice"
}

func c02ArgsCoq(as []C02Arg, vals []any) string {
	var it []string
	for i, a := range as {
		it = append(it, a.Coq(vals[i]))
	}
	return cList(it)
}

func c02Runes(set map[rune]bool, as []C02Arg, vals []any) {
	for i, a := range as {
		collectRunes(set, a.S)
		EncRec{Attrs: a.Attrs}.runes(set)
		if a.Val != nil {
			EncRec{Attrs: []GAttr{{Key: "", Val: *a.Val}}}.runes(set)
		}
		if a.Kind == "xval" {
			collectRunes(set, fmt.Sprintf("{{%v}}", vals[i]))
		}
	}
}

// ---- what an argument list denotes (the statement's reading, written independently of the code):
// a string is a key and the item after it its value; an Attr, Attrs or []Attr in key position stands
// for itself / its members; any other value in key position is an argument without a key; a key with
// nothing after it is dangling.  Returned: the (dotted) key paths of the attributes that must be in
// the record, and the irregularities of the list.
func hasNilMember(as []GAttr) bool {
	for _, a := range as {
		if a.Nil || (a.Val.Kind == "group" && hasNilMember(a.Val.Items)) {
			return true
		}
	}
	return false
}
func hasEmptyGroup(as []GAttr) bool {
	for _, a := range as {
		if a.Val.Kind == "group" && (len(a.Val.Items) == 0 || hasEmptyGroup(a.Val.Items)) {
			return true
		}
	}
	return false
}

func c02Denotes(args []C02Arg) (nodes []GAttr, irregular []string) {
	irr := map[string]bool{}
	for i := 0; i < len(args); {
		a := args[i]
		switch {
		case a.isString():
			if i+1 >= len(args) {
				irr["dangling-key"] = true
				i++
				continue
			}
			v := args[i+1]
			if a.S == "" {
				irr["empty-key"] = true
			} else {
				nodes = append(nodes, GAttr{Key: a.S, Val: GVal{Kind: "leaf"}})
			}
			switch {
			case v.isContainer():
				irr["container-as-value"] = true
			case v.Kind == "opaque":
				irr["marshaler-value"] = true
			case v.Kind == "xval":
				irr["value-kind="+v.X] = true
			case v.Kind == "val" && v.Val.Kind == "nil":
				irr["nil-value"] = true
			}
			i += 2
		case a.isContainer():
			nodes = append(nodes, a.Attrs...)
			if hasNilMember(a.Attrs) {
				irr["nil-member"] = true
			}
			if hasEmptyGroup(a.Attrs) {
				irr["empty-group"] = true
			}
			if a.Kind != "attr" && len(a.Attrs) == 0 {
				irr["empty-attrs"] = true
			}
			i++
		default:
			irr["non-string-in-key-position"] = true
			i++
		}
	}
	for k := range irr {
		irregular = append(irregular, k)
	}
	sort.Strings(irregular)
	return
}

// the key paths of the record: at every level the last attribute of a key is the one that counts
// (property C07), nil members do not count
func c02ExpectedKeys(nodes []GAttr) []string {
	var out []string
	var walk func(prefix string, as []GAttr)
	walk = func(prefix string, as []GAttr) {
		for _, a := range sortDedupe(as) {
			k := a.Key
			if prefix != "" {
				k = prefix + "." + a.Key
			}
			if a.Val.Kind == "group" {
				walk(k, a.Val.Items)
				continue
			}
			out = append(out, k)
		}
	}
	walk("", nodes)
	return out
}

// ---- input and observation of one call ----
type c02Input struct {
	Kind      string   `json:"kind"` // corpus | random | replay
	Recv      string   `json:"recv"`
	Name      string   `json:"name"`
	EPKind    string   `json:"ep_kind"`
	Sev       int      `json:"severity"`
	Mode      string   `json:"mode"`
	Level     int      `json:"logger_level"`
	Dbg       bool     `json:"debug"`
	Flags     int64    `json:"flags"`
	TagW      int      `json:"tag_width"`
	TagWAfter int      `json:"tag_width_after,omitempty"` // a width outside 0..5 handed to SetLevelOutputWidth afterwards: ignored by the setter
	MinW      int      `json:"min_width"`
	Ops       []WOp    `json:"ops"`
	Own       []C02Arg `json:"own,omitempty"`
	Msg       string   `json:"msg"`
	Args      []C02Arg `json:"args"`
}

// a third of the cases (a function of the case): the destinations themselves log while written to
func (in c02Input) reentrant() bool { return (len(in.Msg)+len(in.Args)+in.Sev+len(in.Ops))%3 == 0 }

type c02Obs struct {
	Panic    string
	Writers  []int
	Payloads [][]byte // per write
	Std      []byte   // anything that reached the process's stdout/stderr
	Vals     []any
	OwnVals  []any
	LName    string
	As       map[int]int
	ErrDev   []int
	Flags    int64 // the whole flag word in force during the call
}

type c02Case struct {
	In       c02Input `json:"input"`
	Panic    string   `json:"panic,omitempty"`
	Writers  []int    `json:"writers"`
	Payloads []string `json:"payloads"`
	Why      string   `json:"why,omitempty"`
}

var anyT = reflect.TypeOf((*any)(nil)).Elem()

func anyValues(args []any) []reflect.Value {
	out := make([]reflect.Value, len(args))
	for i, a := range args {
		if a == nil {
			out[i] = reflect.Zero(anyT)
		} else {
			out[i] = reflect.ValueOf(a)
		}
	}
	return out
}

// c02Call issues one record through ep: msg and args for every entry point but Println, whose whole
// argument list is args
func c02Call(ep entryPoint, e *slog.Entry, sev int, msg string, args []any) {
	ctx := context.Background()
	if ep.Recv == "pkg" {
		switch ep.Kind {
		case "verb":
			pkgVerbs[ep.Name](msg, args...)
		case "ctxverb":
			pkgCtxVerbs[ep.Name](ctx, msg, args...)
		case "println":
			slog.Println(args...)
		}
		return
	}
	m := reflect.ValueOf(e).MethodByName(ep.Name)
	var in []reflect.Value
	switch ep.Kind {
	case "verb":
		in = []reflect.Value{reflect.ValueOf(msg)}
	case "println":
	case "ctxverb":
		in = []reflect.Value{reflect.ValueOf(ctx), reflect.ValueOf(msg)}
	case "level":
		in = []reflect.Value{reflect.ValueOf(ctx), reflect.ValueOf(slog.Level(sev)), reflect.ValueOf(msg)}
	case "sloglevel":
		in = []reflect.Value{reflect.ValueOf(ctx), reflect.ValueOf(slogLevelOf[sev]), reflect.ValueOf(msg)}
	}
	m.Call(append(in, anyValues(args)...))
}

const c02ToggleMask = int64(slog.Ldate | slog.Ltime | slog.Lmicroseconds | slog.LlocalTime | slog.Lattrs | slog.LattrsR | slog.Llineno | slog.Lcaller)

func c02Logger(in c02Input, snap *slog.VerifRegistry) *slog.Entry {
	encSetup(snap)
	slog.SetFlags((slog.GetFlags() &^ slog.Flags(c02ToggleMask)) | slog.Flags(in.Flags&c02ToggleMask))
	slog.SetLevelOutputWidth(in.TagW)
	slog.SetMessageMinimalWidth(in.MinW)
	if in.TagWAfter != 0 {
		slog.SetLevelOutputWidth(in.TagWAfter)
	}
	var e *slog.Entry
	if in.Recv == "pkg" {
		e = slog.VerifEntryOf(slog.Default())
	} else {
		e = slog.VerifEntryOf(slog.New("c02"))
	}
	switch in.Mode {
	case "json":
		e.SetJSONMode(true)
	case "logfmt":
		e.SetColorMode(false)
	default:
		e.SetColorMode(true)
	}
	for _, o := range in.Ops {
		applyWop(e, o)
	}
	e.SetLevel(slog.Level(in.Level))
	is.SetDebugMode(in.Dbg) // SetLevel(Debug) switches the process-wide debug mode on: the case fixes it explicitly
	return e
}

func c02Run(in c02Input, snap *slog.VerifRegistry) (o c02Obs) {
	e := c02Logger(in, snap)
	for _, a := range in.Own {
		o.OwnVals = append(o.OwnVals, a.Go())
	}
	for _, a := range in.Args {
		o.Vals = append(o.Vals, a.Go())
	}
	o.LName = e.Name()
	o.Flags = int64(slog.GetFlags())
	o.As = treatedAs()
	for _, l := range slog.VerifErrDev() {
		o.ErrDev = append(o.ErrDev, int(l))
	}
	sort.Ints(o.ErrDev)
	if len(o.OwnVals) > 0 {
		func() { // Set(...) goes through the same argument handling as a log call
			defer func() {
				if rec := recover(); rec != nil {
					o.Panic = fmt.Sprintf("in logger.Set(own...): %v", rec)
				}
			}()
			e.Set(o.OwnVals...)
		}()
		if o.Panic != "" {
			return
		}
	}
	ep := entryPoint{in.Recv, in.Name, in.Sev, in.EPKind}
	historyPrelude(len(in.Msg)*11 + len(in.Args)*7 + in.Sev*3 + len(in.Ops) + in.Level)
	events = nil
	stdDelta()
	if (len(in.Msg)+len(in.Args)+in.Sev+len(in.Ops))%5 == 0 { // a fifth of the cases: destinations that take the record whole and misreport the count
		successSkew = func(w int, n int) int { return []int{-1, 0, 3}[(w+n)%3] }
		defer func() { successSkew = nil }()
	}
	if in.reentrant() {
		// the destinations log a record of their own (another logger, another format, a discarding
		// writer) while they are written to: the payload they were handed must not change under them
		side := slog.VerifEntryOf(slog.New("c02side"))
		side.SetWriter(c09Discard).SetErrorWriter(c09Discard).SetLevel(slog.AlwaysLevel)
		if in.Mode == "json" {
			side.SetColorMode(false)
		} else {
			side.SetJSONMode(true)
		}
		writeHook = func() {
			side.Info("the destination's own record: "+strings.Repeat("x", 40), "w", 1, "err", errors.New("e"))
		}
		defer func() { writeHook = nil }()
	}
	func() {
		defer func() {
			if rec := recover(); rec != nil {
				o.Panic = fmt.Sprint(rec)
			}
		}()
		c02Call(ep, e, in.Sev, in.Msg, o.Vals)
	}()
	out, errb := stdDelta()
	o.Std = append(out, errb...)
	for _, ev := range events {
		if ev.Kind == "write" {
			o.Writers = append(o.Writers, ev.W)
			o.Payloads = append(o.Payloads, ev.Payload)
		}
	}
	events = nil
	return
}

// the message and the attribute arguments of the call as the statement reads them
func (in c02Input) msgAndArgs() (msg string, args []C02Arg, msgKnown bool) {
	if in.EPKind != "println" {
		return in.Msg, in.Args, true
	}
	if len(in.Args) == 0 {
		return "", nil, true
	}
	if in.Args[0].isString() {
		return in.Args[0].S, in.Args[1:], true
	}
	return "", in.Args[1:], false // a message that is not a string: its text is not prescribed
}

func isBlank(s string) bool { return strings.Trim(s, "\n\r \t") == "" }

// ---- decoding the keys of a payload with the tokenizers of C04 / C05 / C06 ----
func jsonPaths(prefix string, n jnode, out map[string]bool) {
	for _, m := range n.Members {
		k := m.Key
		if prefix != "" {
			k = prefix + "." + m.Key
		}
		out[k] = true
		if m.Val.Kind == "object" {
			jsonPaths(k, m.Val, out)
		}
	}
}

type callerTriple struct {
	File string
	Line int
	Func string
}

func c02Decode(mode string, payload []byte, msg string, minw int, caller *callerTriple) (keys map[string]bool, gotMsg string, msgOK bool, decoded bool) {
	keys = map[string]bool{}
	if len(payload) == 0 || payload[len(payload)-1] != '\n' {
		return
	}
	line := payload[:len(payload)-1]
	switch mode {
	case "json":
		n, err := parseJSONTree(line)
		if err != nil || n.Kind != "object" {
			return
		}
		jsonPaths("", n, keys)
		for _, m := range n.Members {
			if m.Key == "msg" && m.Val.Kind == "string" {
				gotMsg, msgOK = m.Val.S, true
				break
			}
		}
		return keys, gotMsg, msgOK, true
	case "logfmt":
		pairs, err := tokenizeLogfmt(string(line))
		if err != nil {
			return
		}
		for _, p := range pairs {
			keys[p.Key] = true
			if p.Key == "msg" && !msgOK {
				if s, ok := unq(p.Raw); ok {
					gotMsg, msgOK = s, true
				}
			}
		}
		return keys, gotMsg, msgOK, true
	}
	// colour: the attribute segment follows the padded first message line
	if !msgInLayoutDomain(msg) {
		return
	}
	plain, _ := sgrScan(payload)
	head := strings.SplitN(strings.TrimSuffix(plain, "\n"), "\n", 2)[0]
	ix := strings.Index(head, "] ")
	if ix < 0 {
		return
	}
	head = head[ix+2:]
	first, _, _ := splitMsg(msg)
	padded := first
	for len(padded) < minw {
		padded += " "
	}
	if !strings.HasPrefix(head, padded) {
		return
	}
	seg := head[len(padded):]
	if caller != nil {
		fn := caller.Func
		if p := strings.LastIndex(fn, "/"); p >= 0 {
			fn = fn[p+1:]
		}
		suffix := fmt.Sprintf(" %s:%d %s", caller.File, caller.Line, fn)
		if !strings.HasSuffix(seg, suffix) {
			return
		}
		seg = seg[:len(seg)-len(suffix)]
	}
	pairs, err := tokenizeColorAttrs(seg)
	if err != nil {
		return
	}
	for _, p := range pairs {
		keys[p.Key] = true
	}
	return keys, first, true, true
}

// the timestamp text of the record (time.Now() rendered by the layout in force: property C16)
func c02Timestamp(mode string, p []byte) string {
	var pre, end string
	switch mode {
	case "json":
		pre, end = `{"time":"`, `"`
	case "logfmt":
		pre, end = `time="`, `"`
	default:
		pre, end = "\x1b[32m", "|"
	}
	if !bytes.HasPrefix(p, []byte(pre)) {
		return ""
	}
	rest := p[len(pre):]
	if i := bytes.Index(rest, []byte(end)); i >= 0 {
		return string(rest[:i])
	}
	return ""
}

// ---- the direct oracle: the statement ----
type c02Verdict struct{ Key, Desc string }

var c02Callers = map[string]callerTriple{}
var jsonStringRe = regexp.MustCompile(`"(?:[^"\\]|\\.)*"`)

func c02Judge(in c02Input, o c02Obs) (vs []c02Verdict, notes []string) {
	add := func(k, d string) { vs = append(vs, c02Verdict{k, d}) }
	msg, args, msgKnown := in.msgAndArgs()
	if !msgKnown && len(o.Vals) > 0 {
		msg = fmt.Sprint(o.Vals[0]) // what a Println that formats its first argument would log; only its blankness is used
	}
	if o.Panic != "" {
		if in.EPKind == "println" && len(in.Args) > 0 && !in.Args[0].isString() && strings.Contains(o.Panic, "interface conversion") {
			add("C02/println-non-string-first-arg", fmt.Sprintf("%s.Println with a first argument of kind %s/%s%s panicked: %s", in.Recv, in.Args[0].Kind, in.Args[0].X, valKind(in.Args[0]), o.Panic))
		} else {
			add("C02/panic", fmt.Sprintf("%s.%s panicked: %s", in.Recv, in.Name, o.Panic))
		}
		return
	}
	admitted := in.Sev != sevNever && specAdmits(o.As, in.Dbg, in.Level, in.Sev)
	if !admitted {
		if len(o.Writers) > 0 || len(o.Std) > 0 {
			add("C02/written-when-not-admitted", fmt.Sprintf("%s.%s severity %d on a logger at level %d (debug=%v) is not admitted, yet %d Write(s) to %v and %d byte(s) on stdout/stderr", in.Recv, in.Name, in.Sev, in.Level, in.Dbg, len(o.Writers), o.Writers, len(o.Std)))
		}
		return
	}
	spec := confDefault()
	for _, op := range in.Ops {
		spec.apply(op)
	}
	errdev := map[int]bool{}
	for _, l := range o.ErrDev {
		errdev[l] = true
	}
	want := spec.route(errdev, in.Sev)
	if fmt.Sprint(o.Writers) != fmt.Sprint(append([]int{}, want...)) {
		add("C02/write-count", fmt.Sprintf("severity %d: Writes seen by the writers %v (in order), the destinations selected are %v: each must receive exactly one Write", in.Sev, o.Writers, want))
		if len(o.Writers) == 0 {
			return
		}
	}
	if len(o.Std) > 0 {
		add("C02/stray-output", fmt.Sprintf("%d byte(s) reached stdout/stderr although they are no destination: %q", len(o.Std), clip(string(o.Std), 120)))
	}
	p := o.Payloads[0]
	for i, q := range o.Payloads {
		if !bytes.Equal(p, q) {
			add("C02/payload-differs", fmt.Sprintf("Write %d (writer %d) carries %q, Write 0 (writer %d) carries %q", i, o.Writers[i], clip(string(q), 100), o.Writers[0], clip(string(p), 100)))
			break
		}
	}
	for i, q := range o.Payloads {
		if len(q) == 0 || q[len(q)-1] != '\n' {
			add("C02/no-trailing-newline", fmt.Sprintf("the payload of Write %d (writer %d, %s mode) does not end with a newline: %q", i, o.Writers[i], in.Mode, clip(string(q), 160)))
			break
		}
	}
	if in.Sev == 8 && isBlank(msg) {
		if string(p) != "\n" {
			add("C02/blank-print", fmt.Sprintf("a blank %s (message %q) must be delivered as exactly one newline byte, got %q", in.Name, msg, clip(string(p), 160)))
		}
		return
	}
	if string(p) == "\n" {
		add("C02/bare-newline-for-ordinary-record", fmt.Sprintf("%s.%s severity %d message %q: the record was delivered as a bare newline (the blank-line form belongs to Print/Println only)", in.Recv, in.Name, in.Sev, msg))
		return
	}
	// the whole record: the message and every attribute the argument list denotes
	var caller *callerTriple
	if in.Flags&int64(slog.Lcaller) != 0 {
		if c, ok := c02Callers[in.Recv+"."+in.Name]; ok {
			caller = &c
		}
	}
	keys, gotMsg, msgOK, decoded := c02Decode(in.Mode, p, msg, in.MinW, caller)
	argNodes, _ := c02Denotes(args)
	ownNodes, _ := c02Denotes(in.Own)
	wantKeys := c02ExpectedKeys(append(append([]GAttr{}, ownNodes...), argNodes...))
	if !decoded {
		notes = append(notes, "undecodable/"+in.Mode)
		plain := string(p)
		if in.Mode == "color" {
			plain, _ = sgrScan(p)
		}
		present := func(k string) bool { return strings.Contains(plain, k) }
		if in.Mode == "json" { // every string token of the line, decoded; a key path is looked up by its last component
			toks := map[string]bool{}
			for _, m := range jsonStringRe.FindAll(p, -1) {
				var x string
				if json.Unmarshal(m, &x) == nil {
					toks[x] = true
				}
			}
			present = func(k string) bool {
				if toks[fixUTF8(k)] {
					return true
				}
				for i := 0; i < len(k); i++ {
					if k[i] == '.' && toks[fixUTF8(k[i+1:])] {
						return true
					}
				}
				return false
			}
		}
		for _, k := range wantKeys {
			if !present(k) {
				add("C02/attr-lost", fmt.Sprintf("attribute key %q of the argument list does not occur in the payload %q", k, clip(string(p), 200)))
				break
			}
		}
		return
	}
	if msgKnown && msgOK {
		wm := msg
		if in.Mode == "json" {
			wm = fixUTF8(msg)
		}
		if in.Mode == "color" {
			wm, _, _ = splitMsg(msg)
		}
		if gotMsg != wm {
			add("C02/message-lost", fmt.Sprintf("the payload carries the message %q, the call passed %q", clip(gotMsg, 100), clip(msg, 100)))
		}
	}
	for _, k := range wantKeys {
		kk := k
		if in.Mode == "json" {
			kk = fixUTF8(k)
		}
		if !keys[kk] {
			add("C02/attr-lost", fmt.Sprintf("attribute key %q of the argument list is not in the delivered record %q", k, clip(string(p), 240)))
			break
		}
	}
	return
}

// the empty-key defect is recognised causally: the same call with every empty string of the list
// replaced by a non-empty key loses nothing
func c02JudgeRefined(in c02Input, o c02Obs, snap *slog.VerifRegistry) ([]c02Verdict, []string) {
	vs, notes := c02Judge(in, o)
	for i, v := range vs {
		if v.Key != "C02/attr-lost" {
			continue
		}
		x := in
		x.Args = append([]C02Arg{}, in.Args...)
		x.Own = append([]C02Arg{}, in.Own...)
		n := 0
		for _, l := range [][]C02Arg{x.Args, x.Own} {
			for j := range l {
				if l[j].Kind == "str" && l[j].S == "" {
					l[j].S = fmt.Sprintf("was-empty-%d", n)
					n++
				}
			}
		}
		if n == 0 {
			continue
		}
		lost := false
		v2, _ := c02Judge(x, c02Run(x, snap))
		for _, w := range v2 {
			if w.Key == "C02/attr-lost" {
				lost = true
			}
		}
		if !lost {
			vs[i].Key = "C02/attr-lost/empty-key-shifts-pairs"
		}
	}
	return vs, notes
}

func valKind(a C02Arg) string {
	if a.Val != nil {
		return "/" + a.Val.Kind
	}
	return ""
}

func clip(s string, n int) string {
	if len(s) > n {
		return s[:n] + fmt.Sprintf("...(%d bytes)", len(s))
	}
	return s
}

// ---- Gallina ----
func c02Term(in c02Input, o c02Obs) (term string, ok bool) {
	if in.Sev == sevNever {
		return "", false
	}
	mode := map[string]string{"json": "ShJSON", "logfmt": "ShLogfmt", "color": "ShColor"}[in.Mode]
	var ops []string
	for _, op := range in.Ops {
		ops = append(ops, op.Coq())
	}
	ci := c02Callers[in.Recv+"."+in.Name]
	var ep string
	if in.EPKind == "println" {
		sp := ""
		if len(in.Args) > 0 && !in.Args[0].isString() {
			sp = fmt.Sprint(o.Vals[0])
		}
		ep = fmt.Sprintf("(EPrintln %s %s)", cBool(in.Recv == "pkg"), cStr(sp))
	} else {
		ep = fmt.Sprintf("(EVerb %s %s)", cZ(int64(in.Sev)), cStr(in.Msg))
	}
	var distinct [][]byte
	for _, p := range o.Payloads {
		dup := false
		for _, q := range distinct {
			if bytes.Equal(p, q) {
				dup = true
			}
		}
		if !dup {
			distinct = append(distinct, p)
		}
	}
	ts := ""
	var pl []string
	for _, p := range distinct {
		pl = append(pl, cBytes(p))
		if ts == "" {
			ts = c02Timestamp(in.Mode, p)
		}
	}
	flags := o.Flags
	term = fmt.Sprintf("mk %s %s %s %s %s %s %s %s (%s, %s, %s) %s %s %s %s %s %s %s %s %s",
		cInts(o.ErrDev), asCoq(o.As), cBool(in.Dbg), cZ(flags), cList(ops), cZ(int64(in.Level)), mode, cStr(o.LName),
		cStr(ci.File), cZ(int64(ci.Line)), cStr(ci.Func), cZ(int64(in.TagW)), cZ(int64(in.MinW)), cStr(ts),
		c02ArgsCoq(in.Own, o.OwnVals), ep, c02ArgsCoq(in.Args, o.Vals), cBool(o.Panic != ""), cInts(o.Writers), cList(pl))
	return term, true
}

// ---- one case: run, judge, shrink on failure, register ----
func c02One(r *Run, snap *slog.VerifRegistry, in c02Input, runeSet map[rune]bool) {
	defer func() { // nothing of the library may take the harness down: a panic outside the guarded call is a finding too
		if rec := recover(); rec != nil {
			r.Fail("C02/panic", fmt.Sprintf("panic outside the guarded call while running %s.%s: %v", in.Recv, in.Name, rec), c02Case{In: in, Panic: fmt.Sprint(rec)})
		}
	}()
	o := c02Run(in, snap)
	vs, notes := c02JudgeRefined(in, o, snap)
	for _, n := range notes {
		r.Dist["note="+n]++
	}
	seen := map[string]bool{}
	for _, v := range vs {
		if seen[v.Key] {
			continue
		}
		seen[v.Key] = true
		small, so, sv := c02Shrink(in, snap, v.Key)
		r.Fail(v.Key, sv.Desc, c02CaseOf(small, so, sv.Desc))
	}
	_, irr := c02Denotes(in.Args)
	if in.EPKind == "println" && len(in.Args) > 0 && !in.Args[0].isString() {
		irr = append(irr, "println-non-string-first")
	}
	_, _, msgKnown := in.msgAndArgs()
	m, _, _ := in.msgAndArgs()
	if msgKnown && isBlank(m) {
		irr = append(irr, "blank-message")
	}
	for _, k := range irr {
		r.Dist["irregular="+k]++
	}
	r.Dist["ep="+in.Recv+"."+in.EPKind]++
	r.Dist["mode="+in.Mode]++
	r.Dist[fmt.Sprintf("args=%s", sizeClass(len(in.Args)))]++
	r.Dist[fmt.Sprintf("writes=%d", len(o.Writers))]++
	if len(o.Writers) > 0 {
		r.Dist["admitted"]++
	} else if o.Panic == "" {
		r.Dist["not-admitted"]++
	}
	canon := fmt.Sprintf("%+v", in)
	big := false
	for _, p := range o.Payloads {
		if len(p) > 20000 {
			big = true
		}
	}
	term, ok := c02Term(in, o)
	if !ok || big {
		r.Count(len(irr) > 0, canon)
		r.Dist["oracle-only"]++
		return
	}
	collectRunes(runeSet, in.Msg)
	collectRunes(runeSet, o.LName)
	for _, p := range o.Payloads { // text the standard library renders (durations: the micro sign)
		collectRunes(runeSet, string(p))
	}
	c02Runes(runeSet, in.Args, o.Vals)
	c02Runes(runeSet, in.Own, o.OwnVals)
	if in.EPKind == "println" && len(o.Vals) > 0 {
		collectRunes(runeSet, fmt.Sprint(o.Vals[0]))
	}
	r.AddCase(term, c02CaseOf(in, o, ""), len(irr) > 0, canon)
}

func sizeClass(n int) string {
	switch {
	case n == 0:
		return "0"
	case n <= 2:
		return "1-2"
	case n <= 8:
		return "3-8"
	case n <= 24:
		return "9-24"
	}
	return "25-64"
}

func c02CaseOf(in c02Input, o c02Obs, why string) c02Case {
	c := c02Case{In: in, Panic: o.Panic, Writers: o.Writers, Why: why}
	for _, p := range o.Payloads {
		c.Payloads = append(c.Payloads, clip(strconv.Quote(string(p)), 2000))
	}
	return c
}

// greedy deletion of arguments / own attributes / writer ops while the same verdict key persists
func c02Shrink(in c02Input, snap *slog.VerifRegistry, key string) (c02Input, c02Obs, c02Verdict) {
	still := func(x c02Input) (c02Obs, c02Verdict, bool) {
		o := c02Run(x, snap)
		vs, _ := c02JudgeRefined(x, o, snap)
		for _, v := range vs {
			if v.Key == key {
				return o, v, true
			}
		}
		return o, c02Verdict{}, false
	}
	bo, bv, _ := still(in)
	budget := 400
	for changed := true; changed && budget > 0; {
		changed = false
		for i := 0; i < len(in.Args) && budget > 0; i++ {
			x := in
			x.Args = append(append([]C02Arg{}, in.Args[:i]...), in.Args[i+1:]...)
			budget--
			if o, v, ok := still(x); ok {
				in, bo, bv, changed = x, o, v, true
				i--
			}
		}
		if len(in.Own) > 0 && budget > 0 {
			x := in
			x.Own = nil
			budget--
			if o, v, ok := still(x); ok {
				in, bo, bv, changed = x, o, v, true
			}
		}
		for i := 2; i < len(in.Ops) && budget > 0; i++ {
			x := in
			x.Ops = append(append([]WOp{}, in.Ops[:i]...), in.Ops[i+1:]...)
			budget--
			if o, v, ok := still(x); ok {
				in, bo, bv, changed = x, o, v, true
				i--
			}
		}
	}
	if in.EPKind != "println" && len(in.Msg) > 1 {
		x := in
		x.Msg = "m"
		if o, v, ok := still(x); ok {
			in, bo, bv = x, o, v
		}
	}
	return in, bo, bv
}

// ---- generators ----
var c02Profile = EncProfile{KeyClass: 1, TextClass: 2, MaxDepth: 6, MaxAttrs: 3, LegalKeys: true}

// a generated value as an argument item (a Go string is a string item whatever its position)
func c02ValArg(g *GVal) C02Arg {
	if g.Kind == "string" {
		return C02Arg{Kind: "str", S: g.S}
	}
	return C02Arg{Kind: "val", Val: g}
}

func genC02Leaf(r *Rng) *GVal {
	v := genLeaf(r, c02Profile, leafKinds[r.Intn(len(leafKinds))])
	return &v
}

func genC02Attr(r *Rng, group bool) GAttr {
	a := GAttr{Key: genKey(r, c02Profile)}
	if group {
		p := c02Profile
		if r.Chance(30) {
			p.MaxAttrs = 0 // an empty group
		}
		a.Val = GVal{Kind: "group", Items: genAttrs(r, p, 1), Ctor: r.Intn(2)}
		if r.Chance(25) { // a chain of groups nested to depth 6
			inner := a.Val
			for d := 0; d < 5; d++ {
				inner = GVal{Kind: "group", Items: []GAttr{{Key: genKey(r, c02Profile), Val: inner}}, Ctor: r.Intn(2)}
			}
			a.Val = inner
		}
	} else {
		a.Val = *genC02Leaf(r)
	}
	return a
}

func genC02Members(r *Rng) []GAttr {
	var out []GAttr
	for n := r.Intn(5); n > 0; n-- {
		if r.Chance(20) {
			out = append(out, GAttr{Nil: true})
		} else {
			out = append(out, genC02Attr(r, r.Chance(15)))
		}
	}
	return out
}

func genC02Args(r *Rng, n int) []C02Arg {
	var out []C02Arg
	for len(out) < n {
		switch c := r.Intn(100); {
		case c < 40:
			out = append(out, C02Arg{Kind: "str", S: genKey(r, c02Profile)}, c02ValArg(genC02Leaf(r)))
		case c < 50:
			out = append(out, C02Arg{Kind: "attr", Attrs: []GAttr{genC02Attr(r, false)}})
		case c < 58:
			out = append(out, C02Arg{Kind: "attr", Attrs: []GAttr{genC02Attr(r, true)}})
		case c < 64:
			a := C02Arg{Kind: "attrs", Attrs: genC02Members(r)}
			a.NilSl = len(a.Attrs) == 0 && r.Bool()
			out = append(out, a)
		case c < 70:
			a := C02Arg{Kind: "attrslice", Attrs: genC02Members(r)}
			a.NilSl = len(a.Attrs) == 0 && r.Bool()
			out = append(out, a)
		case c < 76:
			out = append(out, C02Arg{Kind: "str", S: genKey(r, c02Profile)}, C02Arg{Kind: "xval", X: c02XKinds[r.Intn(len(c02XKinds))]})
		case c < 79:
			out = append(out, C02Arg{Kind: "str", S: genKey(r, c02Profile)}, C02Arg{Kind: "val", Val: &GVal{Kind: "nil"}})
		case c < 84: // a value that is no string and no attribute in key position
			if r.Bool() {
				out = append(out, C02Arg{Kind: "val", Val: genC02NonString(r)})
			} else {
				out = append(out, C02Arg{Kind: "xval", X: c02XKinds[r.Intn(len(c02XKinds))]})
			}
		case c < 87: // an empty key and its value
			out = append(out, C02Arg{Kind: "str", S: ""})
			if r.Chance(60) {
				out = append(out, c02ValArg(genC02Leaf(r)))
			} else {
				out = append(out, C02Arg{Kind: "str", S: genKey(r, c02Profile)})
			}
		case c < 91: // a key followed by an attribute container
			k := []string{"attr", "attr", "attrs", "attrslice"}[r.Intn(4)]
			a := C02Arg{Kind: k}
			if k == "attr" {
				a.Attrs = []GAttr{genC02Attr(r, r.Chance(40))}
			} else {
				a.Attrs = genC02Members(r)
			}
			out = append(out, C02Arg{Kind: "str", S: genKey(r, c02Profile)}, a)
		case c < 93:
			out = append(out, C02Arg{Kind: "str", S: genKey(r, c02Profile)}, C02Arg{Kind: "opaque", X: c02OpaqueKinds[r.Intn(len(c02OpaqueKinds))]})
		case c < 95: // a string value (so that strings meet strings)
			out = append(out, C02Arg{Kind: "str", S: genKey(r, c02Profile)}, C02Arg{Kind: "str", S: genText(r, 2, 10)})
		default:
			out = append(out, C02Arg{Kind: "str", S: genKey(r, c02Profile)}, c02ValArg(genC02Leaf(r)))
		}
	}
	if len(out) > n {
		out = out[:n] // may cut a pair: a dangling key
	}
	if r.Chance(12) && len(out) < 64 {
		out = append(out, C02Arg{Kind: "str", S: genKey(r, c02Profile)})
	}
	return out
}

func genC02NonString(r *Rng) *GVal {
	for {
		v := genC02Leaf(r)
		if v.Kind != "string" {
			return v
		}
	}
}

var c02Sizes = []int{0, 0, 1, 2, 2, 3, 4, 4, 5, 6, 8, 10, 13, 17, 24, 33, 48, 64}

func genC02Ops(r *Rng, sev int) []WOp {
	ops := []WOp{{Kind: "SetW", W: 1 + r.Intn(6)}, {Kind: "SetE", W: 1 + r.Intn(6)}}
	for n := r.Intn(3); n > 0; n-- {
		ops = append(ops, WOp{Kind: "AddW", W: 1 + r.Intn(6)})
	}
	for n := r.Intn(3); n > 0; n-- {
		ops = append(ops, WOp{Kind: "AddE", W: 1 + r.Intn(6)})
	}
	if r.Chance(25) {
		var added []int
		for n := 1 + r.Intn(3); n > 0; n-- {
			w := 1 + r.Intn(6)
			added = append(added, w)
			ops = append(ops, WOp{Kind: "AddL", L: sev, W: w})
		}
		switch r.Intn(5) { // a history: the writers of the severity are taken away again (some, all, by reset)
		case 0:
			ops = append(ops, WOp{Kind: "RemL", L: sev, W: added[r.Intn(len(added))]})
		case 1:
			for _, w := range added {
				ops = append(ops, WOp{Kind: "RemL", L: sev, W: w})
			}
		case 2:
			ops = append(ops, WOp{Kind: "ResetL", L: sev})
		}
	}
	return ops
}

var c02Severities = []int{2, 3, 4, 5, 6, 7, 8, 9, 10, 11, customLevel, unregLevel, fgOnlyLevel, fgBgLevel, lateLevel}
var c02Levels = []int{0, 1, 2, 3, 4, 5, 6, 7, 8, 9, 10, 11, customLevel}

func genC02Msg(r *Rng, mode string) string {
	switch c := r.Intn(100); {
	case c < 14:
		return []string{"", " ", "\n", " \t\r\n", "\t", "   \n\n"}[r.Intn(6)]
	case c < 20:
		return []string{"<b>bold</b>", "a & b", "x < y"}[r.Intn(3)]
	}
	cls := 2
	if r.Chance(40) {
		cls = 0
	}
	return genMsg(r, cls, mode == "color")
}

func genC02Input(r *Rng, eps []entryPoint) c02Input {
	ep := eps[r.Intn(len(eps))]
	in := c02Input{Kind: "random", Recv: ep.Recv, Name: ep.Name, EPKind: ep.Kind, Sev: ep.Sev,
		Mode: []string{"json", "logfmt", "color"}[r.Intn(3)], TagW: 3, MinW: 36}
	switch {
	case ep.Sev == sevParam && ep.Kind == "level":
		in.Sev = c02Severities[r.Intn(len(c02Severities))]
	case ep.Sev == sevParam:
		in.Sev = 2 + r.Intn(4)
	}
	switch c := r.Intn(100); {
	case c < 45: // a level that admits most severities
		in.Level = []int{6, 6, 5, 8, 11, customLevel}[r.Intn(6)]
	default:
		in.Level = c02Levels[r.Intn(len(c02Levels))]
	}
	in.Dbg = r.Chance(15)
	in.Flags = int64(r.U64()) & c02ToggleMask
	if in.Mode == "color" {
		in.TagW = 1 + r.Intn(5)
		in.MinW = []int{36, 36, 16, 50, 200, 165}[r.Intn(6)]
		if r.Chance(10) {
			in.TagWAfter = []int{6, 7, 64, -1, -100}[r.Intn(5)]
		}
	}
	sev := in.Sev
	if sev == sevNever {
		sev = 4
	}
	in.Ops = genC02Ops(r, sev)
	if r.Chance(15) {
		in.Own = genC02Args(r, 1+r.Intn(4))
	}
	n := c02Sizes[r.Intn(len(c02Sizes))]
	if ep.Kind == "println" {
		switch c := r.Intn(100); {
		case c < 10: // Println()
		case c < 70:
			in.Args = append([]C02Arg{{Kind: "str", S: genC02Msg(r, in.Mode)}}, genC02Args(r, n)...)
		default: // a first argument that is not a string
			var first C02Arg
			switch r.Intn(4) {
			case 0:
				first = C02Arg{Kind: "val", Val: genC02NonString(r)}
			case 1:
				first = C02Arg{Kind: "xval", X: c02XKinds[r.Intn(len(c02XKinds))]}
			case 2:
				first = C02Arg{Kind: "attr", Attrs: []GAttr{genC02Attr(r, false)}}
			default:
				first = C02Arg{Kind: "val", Val: &GVal{Kind: "int", I: 42}}
			}
			in.Args = append([]C02Arg{first}, genC02Args(r, n)...)
		}
	} else {
		in.Msg = genC02Msg(r, in.Mode)
		in.Args = genC02Args(r, n)
	}
	return in
}

// the fixed scenarios: every irregular shape of the statement's quantifier, alone
func c02Corpus() [][]C02Arg {
	i1 := &GVal{Kind: "int", I: 1}
	s := func(x string) C02Arg { return C02Arg{Kind: "str", S: x} }
	v := func(g *GVal) C02Arg { return C02Arg{Kind: "val", Val: g} }
	x := func(k string) C02Arg { return C02Arg{Kind: "xval", X: k} }
	at := GAttr{Key: "x", Val: *i1}
	grp := GAttr{Key: "g", Val: GVal{Kind: "group", Items: []GAttr{{Key: "a", Val: *i1}, {Key: "b", Val: GVal{Kind: "string", S: "two"}}}}}
	grpG := grp
	grpG.Val.Ctor = 1
	deep := GAttr{Key: "d6", Val: *i1}
	for d := 5; d >= 1; d-- {
		deep = GAttr{Key: fmt.Sprintf("d%d", d), Val: GVal{Kind: "group", Items: []GAttr{deep}, Ctor: d % 2}}
	}
	out := [][]C02Arg{
		nil,
		{s("k"), v(i1)},
		{s("k"), v(i1), s("dangling")},
		{s("dangling")},
		{v(&GVal{Kind: "int", I: 5}), s("k"), v(i1)},
		{v(&GVal{Kind: "nil"}), s("k"), v(&GVal{Kind: "nil"})},
		{s(""), s("x"), s("k"), v(i1)},
		{s(""), v(&GVal{Kind: "int", I: 7}), s("k"), v(i1)},
		{s("k"), v(i1), s(""), v(&GVal{Kind: "bool", B: true})},
		{s("k"), {Kind: "attr", Attrs: []GAttr{at}}},
		{s("k"), {Kind: "attr", Attrs: []GAttr{grp}}},
		{s("k"), {Kind: "attrs", Attrs: []GAttr{at}}},
		{s("k"), {Kind: "attrslice", Attrs: []GAttr{at}}},
		{{Kind: "attr", Attrs: []GAttr{at}}, {Kind: "attr", Attrs: []GAttr{grp}}, {Kind: "attr", Attrs: []GAttr{grpG}}},
		{{Kind: "attrs", Attrs: []GAttr{{Nil: true}, at, {Nil: true}}}},
		{{Kind: "attrslice", Attrs: []GAttr{{Nil: true}, at}}},
		{{Kind: "attrs", NilSl: true}, {Kind: "attrslice", NilSl: true}, {Kind: "attrs"}, {Kind: "attrslice"}},
		{{Kind: "attr", Attrs: []GAttr{{Key: "g", Val: GVal{Kind: "group", Items: []GAttr{{Nil: true}, at, {Nil: true}}}}}}},
		{{Kind: "attr", Attrs: []GAttr{{Key: "g", Val: GVal{Kind: "group"}}}}, {Kind: "attr", Attrs: []GAttr{{Key: "h", Val: GVal{Kind: "group", Ctor: 1}}}}},
		{{Kind: "attr", Attrs: []GAttr{deep}}},
		{s("r"), {Kind: "opaque", X: "rawjson"}, s("t"), {Kind: "opaque", X: "textonly"}, s("j"), {Kind: "opaque", X: "jsononly"}},
		{s("s"), s("a string value"), s("t"), s("")},
	}
	var all []C02Arg
	for _, k := range c02XKinds {
		out = append(out, []C02Arg{s("v"), x(k)}, []C02Arg{x(k), s("k"), v(i1)})
		all = append(all, s("k_"+k), x(k))
	}
	out = append(out, all)
	for _, k := range leafKinds {
		g := genLeaf(&Rng{99}, c02Profile, k)
		out = append(out, []C02Arg{s("v"), v(&g)})
	}
	return out
}

func c02EntryPoints(snap *slog.VerifRegistry) []entryPoint {
	var eps []entryPoint
	for _, ep := range append(entryMethods(), pkgEntryPoints()...) {
		if ep.Kind == "printf" {
			continue // Infof/Warnf/Errorf take format arguments, not attributes
		}
		if ep.Sev == sevUnknown {
			resetProcess(snap)
			slog.AddFlags(slog.LnoInterrupt)
			ep.Sev = learnSeverity(ep)
		}
		if ep.Sev == 0 || ep.Sev == 1 {
			continue // Panic / Fatal and their Context forms: terminating severities (property C12)
		}
		eps = append(eps, ep)
	}
	return eps
}

// the call statement the records are attributed to (one per entry point: all calls go through c02Call)
func c02Calibrate(snap *slog.VerifRegistry, eps []entryPoint) {
	for _, ep := range eps {
		if ep.Sev == sevNever {
			continue
		}
		sev := ep.Sev
		if sev == sevParam {
			sev = 4
		}
		in := c02Input{Recv: ep.Recv, Name: ep.Name, EPKind: ep.Kind, Sev: sev, Mode: "json", Level: 8,
			Flags: int64(slog.Lcaller | slog.Ltime), TagW: 3, MinW: 36, Ops: []WOp{{Kind: "SetW", W: 1}, {Kind: "SetE", W: 1}}, Msg: "cal"}
		if ep.Kind == "println" {
			in.Args = []C02Arg{{Kind: "str", S: "cal"}}
		}
		o := c02Run(in, snap)
		if len(o.Payloads) != 1 {
			continue
		}
		n, err := parseJSONTree(bytes.TrimSuffix(o.Payloads[0], []byte("\n")))
		if err != nil {
			continue
		}
		for _, m := range n.Members {
			if m.Key == "caller" && len(m.Val.Members) == 3 {
				ln, _ := strconv.Atoi(m.Val.Members[1].Val.S)
				c02Callers[ep.Recv+"."+ep.Name] = callerTriple{m.Val.Members[0].Val.S, ln, m.Val.Members[2].Val.S}
			}
		}
	}
}

const c02Header = "Require Import Verif.Model.Base Verif.Model.Mode Verif.Model.Attrs Verif.Model.Writers Verif.Model.Args Verif.Corr.Enc Verif.Corr.C02."

func runC02(r *Run) {
	snap := slog.VerifSnapshot()
	captureStd(r.Out)
	r.ShardSize = 120
	r.Rule = "every non-terminating entry point that takes arguments (Entry verbs, Context verbs, LogAttrs/Logit/Log, Println - found by reflection - and the package-level functions) x 3 formats x random subsets of 8 flags x 13 logger levels (incl. Off and levels that do not admit the severity) x debug mode x 1-3 destinations per class (SetW/SetE/AddW/AddE/AddL over 6 recording writers) x argument lists of 0..64 items: key/value pairs with values of every kind (34 leaf kinds + pointers, funcs, channels, maps of slices, arrays, uintptr, []any, anonymous structs), Attr, groups nested to depth 6, empty groups, Attrs and []Attr with nil members / nil / empty, dangling keys, non-strings and nil in key position, empty keys, attribute containers and MarshalJSON/MarshalText-only values in value position, a non-string first argument to Println, blank / multi-line / markup / arbitrary-byte messages, own attributes Set on the logger; a fixed corpus has every irregular shape alone in every format. Observed: per-writer Write sequence with payloads, recovered panic, stdout/stderr. Direct oracle = the statement (no panic; admitted: exactly one Write per selected destination, same payload, trailing newline, message and every denoted attribute key decoded from the payload with the tokenizers of C04/C05/C06; not admitted: nothing anywhere; blank Print/Println: one newline byte). The Coq model is run on every case and compared byte for byte. non-trivial = an argument list with at least one irregular item (or a blank message); distinct by input"
	eps := c02EntryPoints(snap)
	c02Calibrate(snap, eps)
	r.Extra["entry_points"] = len(eps)
	r.Extra["callers_calibrated"] = len(c02Callers)
	runeSet := map[rune]bool{}
	var infoM, printM, printlnM, printlnP, logAttrs entryPoint
	for _, ep := range eps {
		switch {
		case ep.Recv == "Entry" && ep.Name == "Info":
			infoM = ep
		case ep.Recv == "Entry" && ep.Name == "Print":
			printM = ep
		case ep.Recv == "Entry" && ep.Name == "Println":
			printlnM = ep
		case ep.Recv == "pkg" && ep.Name == "Println":
			printlnP = ep
		case ep.Recv == "Entry" && ep.Name == "LogAttrs":
			logAttrs = ep
		}
	}
	base := func(ep entryPoint, mode string, sev int) c02Input {
		return c02Input{Kind: "corpus", Recv: ep.Recv, Name: ep.Name, EPKind: ep.Kind, Sev: sev, Mode: mode, Level: 6,
			Flags: int64(slog.Ltime | slog.Lmicroseconds), TagW: 3, MinW: 36,
			Ops: []WOp{{Kind: "SetW", W: 1}, {Kind: "AddW", W: 3}, {Kind: "SetE", W: 2}}, Msg: "m"}
	}
	i42 := C02Arg{Kind: "val", Val: &GVal{Kind: "int", I: 42}}
	for _, mode := range []string{"json", "logfmt", "color"} {
		for _, args := range c02Corpus() {
			in := base(infoM, mode, 4)
			in.Args = args
			c02One(r, snap, in, runeSet)
		}
		// Println with a first argument that is not a string; blank messages at Print and at other severities
		for _, ep := range []entryPoint{printlnM, printlnP} {
			for _, args := range [][]C02Arg{nil, {i42}, {{Kind: "val", Val: &GVal{Kind: "nil"}}}, {i42, {Kind: "str", S: "k"}, i42},
				{{Kind: "str", S: "hello"}, {Kind: "str", S: "k"}, i42}, {{Kind: "str", S: " \t"}, {Kind: "str", S: "k"}, i42}} {
				in := base(ep, mode, 8)
				in.Msg = ""
				in.Args = args
				c02One(r, snap, in, runeSet)
			}
		}
		for _, m := range []string{"", " ", "\n", " \t\r\n"} {
			for _, ep := range []entryPoint{printM, infoM, logAttrs} {
				sev := ep.Sev
				if sev == sevParam {
					sev = 3
				}
				in := base(ep, mode, sev)
				in.Msg = m
				in.Args = []C02Arg{{Kind: "str", S: "k"}, i42}
				c02One(r, snap, in, runeSet)
			}
		}
		// a very long message and value (direct oracle only)
		in := base(infoM, mode, 4)
		in.Msg = strings.Repeat("long message ", 8000)
		in.Args = []C02Arg{{Kind: "str", S: "k"}, {Kind: "str", S: strings.Repeat("y", 100000)}}
		c02One(r, snap, in, runeSet)
		// the reserved-looking keys with values of other kinds than the field of that name has (a string, an int, nil,
		// a duration, a group): ordinary attributes, no panic
		for _, key := range []string{"time", "level", "msg", "logger", "caller"} {
			for _, val := range []GVal{{Kind: "string", S: "not a time"}, {Kind: "int", I: 7}, {Kind: "nil"}, {Kind: "duration", I: 1500},
				{Kind: "time", I: 12345}} {
				v := val
				if key == "time" && v.Kind == "time" {
					continue // (an attribute named time that IS a time is printed in the timestamp's layout: outside the encoder model)
				}
				in := base(infoM, mode, 4)
				in.Args = []C02Arg{{Kind: "str", S: key}, {Kind: "val", Val: &v}, {Kind: "str", S: "k"}, i42}
				c02One(r, snap, in, runeSet)
			}
		}
		// multi-line messages whose continuation lines are about as long as / longer than a fresh pooled
		// buffer (1 KiB), each formatted on fresh pools: the record is still ONE Write
		for _, n := range []int{600, 800, 1000, 1200, 5000} {
			slog.VerifPoolsFresh()
			in := base(infoM, mode, 4)
			in.Msg = "head line\n" + strings.Repeat("c", n/2) + "\n" + strings.Repeat("d", n/2)
			in.Args = []C02Arg{{Kind: "str", S: "k"}, i42}
			c02One(r, snap, in, runeSet)
		}
		// not admitted: an Off logger, an Off severity, a level below the severity
		for _, lv := range []int{7, 2} {
			in := base(infoM, mode, 4)
			in.Level = lv
			in.Args = []C02Arg{{Kind: "str", S: "k"}, i42, {Kind: "str", S: "dangling"}}
			c02One(r, snap, in, runeSet)
		}
		in = base(logAttrs, mode, 7)
		c02One(r, snap, in, runeSet)
	}
	for i := r.N(700, 20000); i > 0; i-- {
		c02One(r, snap, genC02Input(r.R, eps), runeSet)
	}
	r.Coq(c02Header, "case", "(ok isp)")
	r.Prelude(isprintPrelude(runeSet))
	resetProcess(snap)
}

func replayC02(r *Run, file string) {
	var c c02Case
	loadReplay(file, &c)
	snap := slog.VerifSnapshot()
	out1, err := syscall.Dup(1) // the verdict of the replay goes to the real stdout
	must(err)
	captureStd(r.Out)
	eps := c02EntryPoints(snap)
	c02Calibrate(snap, eps)
	runeSet := map[rune]bool{}
	c.In.Kind = "replay"
	c02One(r, snap, c.In, runeSet)
	must(syscall.Dup3(out1, 1, 0))
	must(syscall.Dup3(int(diag.Fd()), 2, 0))
	r.Coq(c02Header, "case", "(ok isp)")
	r.Prelude(isprintPrelude(runeSet))
	resetProcess(snap)
	finishReplay(r)
}
