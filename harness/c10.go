package main

// C10: logger hierarchy - lookup by name, inheritance at creation, isolation afterwards.

import (
	"encoding/json"
	"fmt"
	"regexp"
	"sort"
	"strings"
	"time"

	"github.com/hedzr/is"
	"github.com/hedzr/logg/slog"
)

func init() { drivers["C10"] = runC10; replayers["C10"] = replayC10 }

type c10Case struct {
	Kind  string      `json:"kind"`
	Lvl0  int         `json:"lvl0"`
	Ops   []Op        `json:"ops"`
	Rets  []int       `json:"rets"`
	Final []LoggerObs `json:"final,omitempty"`
	Note  string      `json:"note,omitempty"`
}

var skipNameRe = regexp.MustCompile(`^c/.*\[(-?\d+)\]$`)

func nameCode(s string) int64 {
	switch {
	case s == "":
		return 0
	case skipNameRe.MatchString(s):
		var n int64
		fmt.Sscanf(skipNameRe.FindStringSubmatch(s)[1], "%d", &n)
		return -2 - n
	case strings.Trim(s, " ") == "" && treeName(len(s)) == s: // the all-blank names of treeName
		return int64(len(s))
	case strings.HasPrefix(s, "n"):
		var k int64
		if _, err := fmt.Sscanf(s, "n%d", &k); err == nil && treeName(int(k)) == s {
			return k
		}
	}
	return -1 // a random name
}

func obsCoq(o LoggerObs) string {
	parent := "None"
	if o.Parent >= 0 {
		parent = cSome(cNat(o.Parent))
	}
	w := "None"
	if o.HasW {
		var lv []string
		for _, row := range o.Leveled {
			lv = append(lv, fmt.Sprintf("(%s, %s)", cZ(int64(row[0])), cInts(row[1:])))
		}
		w = fmt.Sprintf("(Some (%s, %s, %s))", cInts(o.Normal), cInts(o.Error), cList(lv))
	}
	var each []string
	for _, e := range o.Each {
		each = append(each, fmt.Sprintf("(%s, %s)", cNat(e[0]), cNat(e[1])))
	}
	return fmt.Sprintf("mko %s %s %s %s %s %s %s %s %s %s %s %s %s", cZ(nameCode(o.Name)), parent, cNat(o.Root), cBool(o.JSON), cBool(o.Color),
		cZ(int64(o.Level)), cZ(int64(o.Skip)), cZ(int64(o.Layout)), cZ(int64(o.UTC)), cZs(o.Attrs), cZs(o.CtxKeys), w, cList(each))
}

func obsKey(o LoggerObs) string { b, _ := json.Marshal(o); return string(b) }

func c10One(r *Run, snap *slog.VerifRegistry, ops []Op, kind string) {
	t := NewTreeExec(snap)
	lvl0 := int(slog.GetLevel())
	c := c10Case{Kind: kind, Lvl0: lvl0, Ops: ops}
	if kind != "replay" && lvl0 != 3 {
		r.Fail("C10/default-level", fmt.Sprintf("the package default level of a production process is %d, not Warn(3)", lvl0), c)
	}
	// creation history kept by the oracle
	parent := []int{-1}
	children := map[int]map[string]int{} // parent -> name -> child
	failed := false
	fail := func(key, desc string) {
		if !failed {
			failed = true
			cc := c
			cc.Note = desc
			r.Fail(key, desc, cc)
		}
	}
	pkgLevel := 3 // Warn in a production process until the package-level SetLevel changes it
	for i := range ops {
		if ops[i].P >= len(t.loggers) {
			ops[i].P = ops[i].P % len(t.loggers)
		}
		o := ops[i]
		before := make([]string, len(t.loggers))
		for j := range t.loggers {
			before[j] = obsKey(t.Observe(j))
		}
		defLevelBefore := pkgLevel // the package default level per the history (not read back from the implementation)
		if g := int(slog.GetLevel()); g != pkgLevel {
			fail("C10/pkg-level", fmt.Sprintf("GetLevel() reports %d, the package default level set by the history is %d", g, pkgLevel))
		}
		nBefore := len(t.loggers)
		ret := t.Exec(o)
		c.Rets = append(c.Rets, ret)
		created := len(t.loggers) > nBefore
		// bookkeeping + per-op oracle
		mayChange := map[int]bool{}
		switch o.Kind {
		case "ONewPkg":
			if !created || ret != nBefore {
				fail("C10/pkg-new", "package-level New did not create a new logger")
			} else {
				parent = append(parent, -1)
				ob := t.Observe(ret)
				lv := defLevelBefore
				for _, s := range o.Opts { // an option may override what it starts with
					if s.Kind == "SLevel" {
						lv = s.L
					}
				}
				if ob.Parent != -1 || ob.Level != lv {
					fail("C10/pkg-new", fmt.Sprintf("package-level New: parent %d level %d (default level was %d)", ob.Parent, ob.Level, defLevelBefore))
				}
				hasMode := false
				for _, s := range o.Opts {
					if s.Kind == "SJSON" || s.Kind == "SColor" {
						hasMode = true
					}
				}
				if !hasMode && !(t.loggers[ret].ColorMode() && !t.loggers[ret].JSONMode()) {
					fail("C10/pkg-new", "package-level New does not start in coloured format")
				}
			}
		case "ONew":
			name := ""
			if o.Name != nil && *o.Name != 0 {
				name = treeName(*o.Name)
			}
			if ex, ok := children[o.P][name]; ok && name != "" {
				if ret != ex || created {
					fail("C10/new-lookup", fmt.Sprintf("New(%q) on logger %d returned %d, the existing child is %d", name, o.P, ret, ex))
				}
			} else {
				if !created || ret != nBefore {
					fail("C10/new-lookup", fmt.Sprintf("New(%q) on logger %d did not create a child (returned %d)", name, o.P, ret))
				} else {
					parent = append(parent, o.P)
					if name != "" {
						if children[o.P] == nil {
							children[o.P] = map[string]int{}
						}
						children[o.P][name] = ret
					}
					var pb LoggerObs
					json.Unmarshal([]byte(before[o.P]), &pb)
					ob := t.Observe(ret)
					lv, md := pb.Level, true
					for _, s := range o.Opts {
						if s.Kind == "SLevel" {
							lv = s.L
						}
						if s.Kind == "SJSON" || s.Kind == "SColor" {
							md = false
						}
					}
					if ob.Parent != o.P || ob.Level != lv || (md && (ob.JSON != pb.JSON || ob.Color != pb.Color)) {
						fail("C10/inherit", fmt.Sprintf("child %d of %d: parent=%d level=%d json=%v color=%v; receiver had level=%d json=%v color=%v", ret, o.P, ob.Parent, ob.Level, ob.JSON, ob.Color, pb.Level, pb.JSON, pb.Color))
					}
				}
			}
		case "OWith":
			if !created || ret != nBefore {
				fail("C10/with-fresh-child", fmt.Sprintf("With... on logger %d returned logger %d instead of a newly created child", o.P, ret))
			} else {
				parent = append(parent, o.P)
				if ob := t.Observe(ret); ob.Parent != o.P {
					fail("C10/with-fresh-child", fmt.Sprintf("With... on logger %d: the child's parent is %d", o.P, ob.Parent))
				}
			}
		case "OWithSkip":
			key := fmt.Sprintf("\x00skip%d", o.N)
			if ex, ok := children[o.P][key]; ok {
				if ret != ex || created {
					fail("C10/withskip", fmt.Sprintf("WithSkip(%d) on logger %d returned %d, the child kept for that n is %d", o.N, o.P, ret, ex))
				}
				mayChange[ex] = true
			} else if !created {
				fail("C10/withskip", fmt.Sprintf("WithSkip(%d) on logger %d did not create a child", o.N, o.P))
			} else {
				parent = append(parent, o.P)
				if children[o.P] == nil {
					children[o.P] = map[string]int{}
				}
				children[o.P][key] = ret
			}
			if ret >= 0 && t.loggers[ret].Skip() != o.N {
				fail("C10/withskip", fmt.Sprintf("WithSkip(%d) returned a logger with skip %d", o.N, t.loggers[ret].Skip()))
			}
		case "OSet", "OSetSkip", "OResetCtxKeys":
			if ret != o.P || created {
				fail("C10/set-returns-receiver", fmt.Sprintf("Set... on logger %d returned %d (created=%v)", o.P, ret, created))
			}
			mayChange[o.P] = true
		case "OPkgSetLevel":
			mayChange[0] = true
			pkgLevel = o.N
		}
		if len(parent) != len(t.loggers) {
			// keep the oracle's history aligned even after a failure
			for len(parent) < len(t.loggers) {
				parent = append(parent, -2)
			}
		}
		// isolation: nobody else changed (Each of an ancestor legitimately grows when a logger is created)
		for j := 0; j < nBefore; j++ {
			if mayChange[j] {
				continue
			}
			now := t.Observe(j)
			var was LoggerObs
			json.Unmarshal([]byte(before[j]), &was)
			if created {
				now.Each, was.Each = nil, nil
			}
			if obsKey(now) != obsKey(was) {
				fail("C10/isolation", fmt.Sprintf("op %d (%s on logger %d) changed logger %d: %s -> %s", i, o.Kind, o.P, j, obsKey(was), obsKey(now)))
			}
		}
	}
	// lookups agree with the creation history
	depthUnder := func(top, i int) int {
		d := 0
		for i != top {
			if i < 0 || i >= len(parent) || parent[i] < 0 {
				return -1
			}
			i = parent[i]
			d++
		}
		return d
	}
	for j := range t.loggers {
		ob := t.Observe(j)
		c.Final = append(c.Final, ob)
		if j < len(parent) && parent[j] >= -1 && ob.Parent != parent[j] {
			fail("C10/parent", fmt.Sprintf("Parent() of logger %d is %d, it was created under %d", j, ob.Parent, parent[j]))
		}
		root := j
		for root < len(parent) && parent[root] >= 0 {
			root = parent[root]
		}
		if ob.Root != root {
			fail("C10/root", fmt.Sprintf("Root() of logger %d is %d, creation history says %d", j, ob.Root, root))
		}
		var exp [][]int
		for k := range t.loggers {
			if d := depthUnder(j, k); d >= 0 {
				exp = append(exp, []int{k, d})
			}
		}
		if fmt.Sprint(exp) != fmt.Sprint(ob.Each) {
			fail("C10/each", fmt.Sprintf("Each on logger %d visited %v, the subtree is %v", j, ob.Each, exp))
		}
		// Sublogger: for every name in the tree and one absent name
		for _, nm := range []string{"n1", "n2", "n3", "n4", "absent"} {
			got := t.loggers[j].Sublogger(nm)
			var cands []int
			for k := range t.loggers {
				if depthUnder(j, k) >= 0 && t.loggers[k].Name() == nm {
					cands = append(cands, k)
				}
			}
			if got == nil && len(cands) > 0 || got != nil && !containsInt(cands, t.idx[got]) {
				fail("C10/sublogger", fmt.Sprintf("Sublogger(%q) on logger %d: got %v, candidates %v", nm, j, got != nil, cands))
			}
		}
	}
	if is.DebugMode() != dbgExpected(ops) {
		// informational only: modelled in Tree.v (dbg), compared by the correspondence
	}
	var ro, fo []string
	for _, x := range c.Rets {
		if x < 0 {
			ro = append(ro, "None")
		} else {
			ro = append(ro, cSome(cNat(x)))
		}
	}
	for _, o := range c.Final {
		fo = append(fo, obsCoq(o))
	}
	term := fmt.Sprintf("mk %s %s %s %s", cZ(int64(lvl0)), opsCoq(ops), cList(ro), cList(fo))
	touched := map[int]bool{}
	for _, o := range ops {
		touched[o.P] = true
		r.Dist["op="+o.Kind]++
	}
	r.AddCase(term, c, len(touched) >= 2, opsCoq(ops))
	r.Dist[fmt.Sprintf("len=%d", len(ops)/5*5)]++
}

func dbgExpected(ops []Op) bool { return false }

// c10SharedWriterSets: one logger is handed another logger's writer set (GetWriterBy) - afterwards adding to and
// removing from either logger must not change where the OTHER one writes (direct oracle only)
func c10SharedWriterSets(r *Run, snap *slog.VerifRegistry) {
	dests := func(e *slog.Entry, lvl slog.Level) []int {
		events = nil
		e.LogAttrs(nil, lvl, "c10 shared sets")
		var ws []int
		for _, ev := range events {
			if ev.Kind == "write" {
				ws = append(ws, ev.W)
			}
		}
		events = nil
		sort.Ints(ws)
		return ws
	}
	for _, n := range []int{1, 2, 3, 4} { // writers of the source set (its slice has spare capacity for some n)
		for _, errClass := range []bool{false, true} {
			resetProcess(snap)
			slog.AddFlags(slog.LnoInterrupt)
			lvl := slog.InfoLevel
			if errClass {
				lvl = slog.ErrorLevel
			}
			a := slog.VerifEntryOf(slog.New("c10-set-a")).SetLevel(slog.AlwaysLevel).SetColorMode(false)
			b := slog.VerifEntryOf(slog.New("c10-set-b")).SetLevel(slog.AlwaysLevel).SetColorMode(false)
			var src []int
			for i := 1; i <= n; i++ {
				src = append(src, i)
				switch {
				case errClass && i == 1:
					a.SetErrorWriter(pool[i])
				case errClass:
					a.AddErrorWriter(pool[i])
				case i == 1:
					a.SetWriter(pool[i])
				default:
					a.AddWriter(pool[i])
				}
			}
			if errClass {
				a.SetWriter(pool[7])
				b.SetWriter(pool[7])
				b.SetErrorWriter(a.GetWriterBy(lvl))
				b.AddErrorWriter(pool[5])
				a.AddErrorWriter(pool[6])
			} else {
				a.SetErrorWriter(pool[7])
				b.SetErrorWriter(pool[7])
				b.SetWriter(a.GetWriterBy(lvl))
				b.AddWriter(pool[5])
				a.AddWriter(pool[6])
			}
			wantA := append(append([]int{}, src...), 6)
			wantB := append(append([]int{}, src...), 5)
			rp := map[string]any{"kind": "shared-writer-sets", "source_writers": n, "error_class": errClass}
			r.Count(true, fmt.Sprintf("shared-writer-sets %d %v", n, errClass))
			r.Dist["shared_writer_sets"]++
			if ga, gb := dests(a, lvl), dests(b, lvl); fmt.Sprint(ga) != fmt.Sprint(wantA) || fmt.Sprint(gb) != fmt.Sprint(wantB) {
				r.Fail("C10/shared-writer-set", fmt.Sprintf("logger b was given logger a's writer set %v, then b added writer 5 and a added writer 6: a writes to %v (expected %v), b writes to %v (expected %v)",
					src, ga, wantA, gb, wantB), rp)
				continue
			}
			// removing on b what b never added itself leaves a alone
			if errClass {
				b.RemoveErrorWriter(pool[1])
			} else {
				b.RemoveWriter(pool[1])
			}
			if ga := dests(a, lvl); fmt.Sprint(ga) != fmt.Sprint(wantA) {
				r.Fail("C10/shared-writer-set", fmt.Sprintf("after b removed writer 1 (a member of the set it was handed), a writes to %v (expected %v)", ga, wantA), rp)
			}
		}
	}
	resetProcess(snap)
}

func containsInt(l []int, x int) bool {
	for _, y := range l {
		if y == x {
			return true
		}
	}
	return false
}

func runC10(r *Run) {
	snap := slog.VerifSnapshot()
	r.ShardSize = 100
	r.Coq("Require Import Verif.Model.Base Verif.Model.Mode Verif.Model.Writers Verif.Model.Tree Verif.Corr.C10.", "case", "ok")
	r.Rule = "random histories (1..40 ops) of New(name|anonymous, options...), With*/Set* (level, JSON/colour/UTC mode, time format, attrs in three forms, skip, context keys, writer ops), WithSkip, SetSkip, ResetContextKeys and package SetLevel on a growing tree incl. the default logger's subtree; per-op oracle (lookup, inheritance, fresh child, isolation of all other loggers) and final lookups (Parent/Root/Each/Sublogger) against the creation history; non-trivial = touches >= 2 loggers; distinct by op list"
	// corpus: ONE Attrs value handed to several loggers that have no attributes yet, then more
	// attributes set on each: the loggers must not end up sharing memory (isolation of attributes)
	n1, n2, n3 := 1, 2, 3
	sa := func(style int, zs ...int64) *SetOp { return &SetOp{Kind: "SAttrs", Zs: zs, Style: style} }
	for _, st := range []int{0, 1, 2} {
		c10One(r, snap, []Op{
			{Kind: "ONew", P: 0, Name: &n1}, {Kind: "ONew", P: 0, Name: &n2}, {Kind: "ONew", P: 1, Name: &n3},
			{Kind: "OSet", P: 1, S: sa(1, 1, 2)}, {Kind: "OSet", P: 2, S: sa(1, 1, 2)}, {Kind: "OWith", P: 3, S: sa(1, 1, 2)},
			{Kind: "OSet", P: 1, S: sa(st, 3)}, {Kind: "OSet", P: 2, S: sa(st, 4)}, {Kind: "OSet", P: 4, S: sa(st, 5)},
			{Kind: "OSet", P: 1, S: sa(st, 6, 7)},
		}, "corpus")
		c10One(r, snap, []Op{
			{Kind: "ONew", P: 0, Name: &n1, Opts: []SetOp{*sa(1, 8, 9)}}, {Kind: "ONew", P: 0, Name: &n2, Opts: []SetOp{*sa(1, 8, 9)}},
			{Kind: "OSet", P: 2, S: sa(st, 3)}, {Kind: "OSet", P: 1, S: sa(st, 4)},
		}, "corpus")
	}
	// corpus: WithSkip keeps one child per n whatever SetSkip did to that child since; SetSkip back to 0;
	// the package default level set after the default logger's own level was set to the same value
	lv := func(l int) *SetOp { return &SetOp{Kind: "SLevel", L: l} }
	c10One(r, snap, []Op{
		{Kind: "ONew", P: 0, Name: &n1}, {Kind: "OWithSkip", P: 1, N: 1}, {Kind: "OSetSkip", P: 2, N: 2}, {Kind: "OWithSkip", P: 1, N: 2},
		{Kind: "OWithSkip", P: 1, N: 1}, {Kind: "OWithSkip", P: 1, N: 0}, {Kind: "OSetSkip", P: 2, N: 0}, {Kind: "OWithSkip", P: 1, N: 0},
		{Kind: "OSetSkip", P: 1, N: 3}, {Kind: "OSetSkip", P: 1, N: 0}, {Kind: "OWithSkip", P: 1, N: 2},
	}, "corpus")
	for _, l := range []int{2, 4, 6} {
		c10One(r, snap, []Op{
			{Kind: "OSet", P: 0, S: lv(l)}, {Kind: "OPkgSetLevel", N: l}, {Kind: "ONewPkg", Name: &n1}, {Kind: "ONewPkg"},
			{Kind: "OPkgSetLevel", N: 3}, {Kind: "OSet", P: 0, S: lv(5)}, {Kind: "OPkgSetLevel", N: 5}, {Kind: "ONewPkg", Name: &n2},
		}, "corpus")
	}
	c10SharedWriterSets(r, snap)
	c10SaveLevelScope(r, snap)
	for i := r.N(300, 8000); i > 0; i-- {
		ops := genTreeOps(r.R, TreeProfile{MaxOps: 40})
		c10One(r, snap, ops, "random")
	}
	// stress: anonymous children must be new loggers however fast they are created
	resetProcess(snap)
	root := slog.VerifEntryOf(slog.New("stress"))
	seen := map[*slog.Entry]bool{}
	n := r.N(200000, 1500000)
	dups := 0
	deadline := time.Now().Add(time.Duration(r.N(20, 120)) * time.Second) // a slow lookup must not starve the check
	done := 0
	for i := 0; i < n && (i%1000 != 0 || time.Now().Before(deadline)); i++ {
		done++
		var c *slog.Entry
		switch i % 3 {
		case 0:
			c = root.WithLevel(slog.InfoLevel)
		case 1:
			c = root.New()
		default:
			c = root.WithJSONMode()
		}
		if seen[c] {
			dups++
		}
		seen[c] = true
	}
	r.Count(true, "stress")
	r.Dist["stress_calls"] = done
	n = done
	if dups > 0 {
		r.Fail("C10/with-fresh-child", fmt.Sprintf("%d of %d consecutive With.../New() calls on one logger returned an already existing child (the random child name repeated)", dups, n),
			c10Case{Kind: "stress", Note: fmt.Sprintf("call root.WithLevel/New()/WithJSONMode %d times and compare the returned pointers", n)})
	}
	resetProcess(snap)
	_ = sort.Ints
}

func replayC10(r *Run, file string) {
	var c c10Case
	loadReplay(file, &c)
	snap := slog.VerifSnapshot()
	r.Coq("Require Import Verif.Model.Base Verif.Model.Mode Verif.Model.Writers Verif.Model.Tree Verif.Corr.C10.", "case", "ok")
	if c.Kind == "save-level-scope" {
		c10SaveLevelScope(r, snap)
		finishReplay(r)
		return
	}
	c10One(r, snap, c.Ops, "replay")
	finishReplay(r)
}

// c10SaveLevelScope: SaveLevelAndSet is a scope around the PACKAGE default level (what a detached New starts at):
// after the function it returned has run, that level is what it was, also when the default logger had been given a
// level of its own in between (direct oracle)
func c10SaveLevelScope(r *Run, snap *slog.VerifRegistry) {
	for _, pkg := range []slog.Level{slog.InfoLevel, slog.WarnLevel, slog.TraceLevel} {
		for _, own := range []slog.Level{slog.ErrorLevel, slog.DebugLevel, slog.OffLevel} {
			for _, inside := range []slog.Level{slog.DebugLevel, slog.OffLevel, slog.AlwaysLevel} {
				resetProcess(snap)
				slog.SetLevel(pkg)
				slog.Default().SetLevel(own) // the default logger's own level now differs from the package level
				restore := slog.SaveLevelAndSet(inside)
				in := slog.GetLevel()
				restore()
				after := slog.GetLevel()
				fresh := slog.New().Level()
				r.Count(true, fmt.Sprintf("savelevel %d %d %d", pkg, own, inside))
				r.Dist["save-level-scope"]++
				rep := map[string]any{"kind": "save-level-scope", "package_level": int(pkg), "default_logger_level": int(own), "level_inside": int(inside),
					"observed_inside": int(in), "observed_after": int(after), "new_logger_after": int(fresh)}
				switch {
				case in != inside:
					r.Fail("C10/save-level-scope", fmt.Sprintf("inside SaveLevelAndSet(%v) the package level is %v", inside, in), rep)
				case after != pkg:
					r.Fail("C10/save-level-scope", fmt.Sprintf("package level %v, default logger set to %v, SaveLevelAndSet(%v) and its restore: the package level is now %v", pkg, own, inside, after), rep)
				case fresh != pkg:
					r.Fail("C10/save-level-scope", fmt.Sprintf("after the scope a detached New() starts at %v, the package level is %v", fresh, pkg), rep)
				}
			}
		}
	}
	resetProcess(snap)
}
