package main

// C09, values reached through a pointer: the record shows what the pointer points at WHEN the record is made.  The
// same pointer logged before, with other contents behind it, is history like any other: the record is byte for byte
// the one a fresh process writes for an equal value.  Direct oracle only (pointer-valued attributes print through the
// %v fallback, which the encoder model does not describe).

import (
	"bytes"
	"fmt"
	"strconv"

	"github.com/hedzr/logg/slog"
)

type c09Cfg struct {
	Name    string
	Retries int
}

type c09Holder struct {
	P *c09Cfg
	N int
}

func c09PointerHistory(r *Run) {
	for _, mode := range []string{"json", "logfmt", "color"} {
		for variant := 0; variant < 1; variant++ { // (a pointer NESTED in a struct or array prints as its address: not comparable across values)
			emit := func(v any) []byte {
				l := slog.VerifEntryOf(slog.New("c09ptr"))
				switch mode {
				case "json":
					l.SetJSONMode(true)
				case "logfmt":
					l.SetColorMode(false)
				default:
					l.SetColorMode(true)
				}
				l.SetWriter(pool[1]).SetErrorWriter(pool[1]).SetUTCMode(true)
				events = nil
				l.WriteThru(nil, slog.InfoLevel, fixedTime, 0, "pointer value", slog.Attrs{slog.NewAttr("cfg", v), slog.Int("z", 1)})
				for _, ev := range events {
					if ev.Kind == "write" {
						return ev.Payload
					}
				}
				return nil
			}
			p := &c09Cfg{"primary", 1}
			var earlier, later any = p, p
			switch variant {
			case 1: // a struct that holds the pointer (comparable by identity too)
				h := c09Holder{p, 7}
				earlier, later = h, h
			case 2: // an array of pointers
				a := [2]*c09Cfg{p, p}
				earlier, later = a, a
			}
			first := emit(earlier)
			p.Retries, p.Name = 5, "secondary"
			again := emit(later)
			slog.VerifPoolsFresh()
			q := &c09Cfg{"secondary", 5}
			var equal any = q
			switch variant {
			case 1:
				equal = c09Holder{q, 7}
			case 2:
				equal = [2]*c09Cfg{q, q}
			}
			want := emit(equal)
			r.Count(true, fmt.Sprintf("pointer-history %s %d", mode, variant))
			r.Dist["pointer-history"]++
			if !bytes.Equal(again, want) {
				r.Fail("C09/pointer-logged-before", fmt.Sprintf("%s: a value reached through a pointer was logged, the pointee changed, the same pointer logged again: the record differs from the one an equal value gives on fresh pools", mode),
					map[string]any{"kind": "pointer-history", "mode": mode, "variant": variant, "first_record": strconv.Quote(string(first)), "second_record": strconv.Quote(string(again)), "fresh_record_of_equal_value": strconv.Quote(string(want))})
			}
		}
	}
}
