package main

// C15, LogValuers that cannot answer: log/slog resolves a LogValuer under a guard (Value.Resolve: a
// panicking LogValue becomes an error value, an endless chain is cut).  A handler that converts attributes
// must keep that guard: the record is still written, once, with its other attributes intact.  The text of
// the substituted value (it quotes a stack) is not compared; direct oracle only.

import (
	"bytes"
	"context"
	"encoding/json"
	"fmt"
	logslog "log/slog"
	"os"
	"os/exec"
	"runtime/debug"
	"strings"
	"time"

	"github.com/hedzr/logg/slog"
)

type c15NilFieldValuer struct{ name string }

func (p *c15NilFieldValuer) LogValue() logslog.Value { return logslog.StringValue(p.name) } // panics on a nil receiver

type c15PanicValuer struct{}

func (c15PanicValuer) LogValue() logslog.Value { panic("c15: this LogValuer cannot answer") }

type c15LoopValuer struct{}

func (c15LoopValuer) LogValue() logslog.Value { return logslog.AnyValue(c15LoopValuer{}) } // answers with itself, for ever

func init() { childModes["C15-badvaluer"] = c15BadValuerChild }

type c15BVLine struct {
	Started string         `json:"started,omitempty"`
	Key     string         `json:"key,omitempty"`
	Desc    string         `json:"desc,omitempty"`
	Replay  map[string]any `json:"replay,omitempty"`
	Done    bool           `json:"done,omitempty"`
}

// the scenario runs in a child process: an unguarded endless chain ends in a stack overflow, which no recover() stops
func c15BadValuers(r *Run, snap *slog.VerifRegistry) {
	exe, err := os.Executable()
	must(err)
	cmd := exec.Command(exe, "C15-badvaluer")
	var so, se bytes.Buffer
	cmd.Stdout, cmd.Stderr = &so, &se
	t := time.AfterFunc(120*time.Second, func() { _ = cmd.Process.Kill() })
	runErr := cmd.Run()
	t.Stop()
	last, done := "", false
	for _, ln := range strings.Split(so.String(), "\n") {
		if !strings.HasPrefix(ln, "RESULT ") {
			continue
		}
		var x c15BVLine
		if json.Unmarshal([]byte(ln[7:]), &x) != nil {
			continue
		}
		switch {
		case x.Done:
			done = true
		case x.Started != "":
			last = x.Started
			r.Count(true, x.Started)
			r.Dist["bad-valuer"]++
		default:
			r.Fail(x.Key, x.Desc, x.Replay)
		}
	}
	if !done {
		tail := se.String()
		if len(tail) > 600 {
			tail = tail[:600]
		}
		r.Fail("C15/bad-valuer/crash", fmt.Sprintf("the process died (%v) while logging %s; its standard error begins: %q", runErr, last, tail),
			map[string]any{"kind": "bad-valuer", "died_in": last, "error": fmt.Sprint(runErr)})
	}
}

func c15BadValuerChild(args []string) {
	snap := slog.VerifSnapshot()
	debug.SetMaxStack(8 << 20) // a runaway recursion dies within milliseconds
	r := &c15BVOut{}
	type nv struct {
		name string
		v    any
	}
	for _, b := range []nv{{"typed-nil", (*c15NilFieldValuer)(nil)}, {"panics", c15PanicValuer{}}, {"endless", c15LoopValuer{}}} {
		name, v := b.name, b.v
		for _, where := range []string{"record", "group", "with", "handle-direct"} {
			for _, json := range []bool{true, false} {
				c15Prep(snap)
				l := c15Logger(6)
				l.SetJSONMode(json)
				if !json {
					l.SetColorMode(false)
				}
				h := slog.NewSlogHandler(l, &slog.HandlerOptions{NoColor: true, NoSource: true, JSON: json, Level: slog.TraceLevel})
				lg := logslog.New(h)
				events = nil
				r.Started(fmt.Sprintf("a LogValuer that cannot answer (%s), %s, JSON=%v", name, where, json))
				var pan any
				func() {
					defer func() { pan = recover() }()
					switch where {
					case "record":
						lg.Info("c15 bad valuer", "a", 1, "bad", v, "z", 2)
					case "group":
						lg.Info("c15 bad valuer", "a", 1, logslog.Group("g", "bad", v, "k", "v"), "z", 2)
					case "with":
						lg.With("bad", v).Info("c15 bad valuer", "a", 1, "z", 2)
					case "handle-direct":
						rec := logslog.NewRecord(time.Unix(7, 0), logslog.LevelInfo, "c15 bad valuer", 0)
						rec.AddAttrs(logslog.Int("a", 1), logslog.Any("bad", v), logslog.Int("z", 2))
						_ = h.Handle(context.Background(), rec)
					}
				}()
				ems := collectEmissions()
				desc := fmt.Sprintf("a LogValuer that cannot answer (%s) %s, JSON=%v", name, map[string]string{"record": "among the record's attributes", "group": "inside a group",
					"with": "given to With", "handle-direct": "in a record handed to Handle"}[where], json)
				rep := map[string]any{"kind": "bad-valuer", "valuer": name, "where": where, "json": json, "panic": fmt.Sprint(pan), "emissions": ems}
				_ = name
				switch {
				case pan != nil:
					r.Fail("C15/bad-valuer/panic", desc+": the logging call panicked: "+fmt.Sprint(pan), rep)
				case len(ems) != 1:
					r.Fail("C15/bad-valuer/count", fmt.Sprintf("%s: %d records written, one expected", desc, len(ems)), rep)
				default:
					got := map[string]bool{}
					var walk func(pfx string, ns []c15node)
					walk = func(pfx string, ns []c15node) {
						for _, n := range ns {
							got[pfx+n.Key] = true
							walk(pfx+n.Key+".", n.Items)
						}
					}
					walk("", ems[0].Attrs)
					if !json { // (the decoder of this driver reads JSON records; a logfmt line is searched)
						for _, k := range []string{"a", "z"} {
							got[k] = strings.Contains(string(ems[0].Payload), " "+k+"=")
						}
					}
					for _, k := range []string{"a", "z"} {
						if !got[k] {
							r.Fail("C15/bad-valuer/attrs", fmt.Sprintf("%s: attribute %q of the record is missing (decoded keys %v)", desc, k, got), rep)
							break
						}
					}
				}
			}
		}
	}
	r.emit(c15BVLine{Done: true})
}

type c15BVOut struct{}

func (o *c15BVOut) emit(x c15BVLine) {
	b, _ := json.Marshal(x)
	os.Stdout.Write(append(append([]byte("RESULT "), b...), '\n'))
}
func (o *c15BVOut) Started(s string) { o.emit(c15BVLine{Started: s}) }
func (o *c15BVOut) Fail(key, desc string, replay map[string]any) {
	o.emit(c15BVLine{Key: key, Desc: desc, Replay: replay})
}
