package main

// C13: failing destinations - bounded reaction, no lost records elsewhere, recovery.
//
// Fault-injecting writers (the recording pool of tree.go with its global fail plan) are
// driven by ENUMERATED schedules: for a configuration, a logger level and a sequence of
// calls, every assignment of fail/succeed to the first K Write attempts is explored
// (depth-first over the decisions the run actually asks for, so no schedule is run twice),
// everything after the assigned attempts succeeds (recovery), plus the schedule on which
// every attempt fails for ever.  The work is split into batches that run in CHILD
// processes of this binary (mode "C13-child": small stack limit, timeout in the parent), so
// that a tree whose diagnostic recurses for ever is reported as a violation instead of
// taking the harness down.

import (
	"bytes"
	"encoding/json"
	"fmt"
	"io"
	"os"
	"os/exec"
	"runtime/debug"
	"sort"
	"strings"
	"sync"
	"sync/atomic"
	"time"

	"github.com/hedzr/is"
	"github.com/hedzr/logg/slog"
)

func init() {
	drivers["C13"] = runC13
	replayers["C13"] = replayC13
	childModes["C13-child"] = c13ChildMain
}

const c13DiagMsg = "slog print log failed"
const c13Custom = 13 // registered: error device, treated as Error
const c13MaxAttemptsPerCall = 64

var c13Sevs = []int{4, 2, 3, 9, c13Custom} // Info, Error, Warn itself, a leveled severity (OK), a registered error-device level
var c13Levels = []int{2, 3, 4, 8, 7}       // Error, Warn, Info, Always, Off

// ---- inputs / observations ----
type c13Att struct {
	W      int  `json:"w"`
	Diag   bool `json:"diag"`
	Failed bool `json:"failed"`
}

type c13Run struct {
	Sched   []bool     `json:"schedule"`          // fail/succeed of the first attempts; later attempts succeed
	Forever bool       `json:"forever,omitempty"` // every attempt fails, for ever
	Obs     [][]c13Att `json:"-"`                 // re-observed on replay
	Notes   []string   `json:"notes,omitempty"`
}

type c13Group struct {
	Ops    []WOp    `json:"ops"`
	Level  int      `json:"logger_level"`
	Calls  []int    `json:"calls"`                   // severities, the last one is the recovery probe
	Probe  bool     `json:"probe"`                   // the last call is made after the schedule is over
	Nested bool     `json:"nested_groups,omitempty"` // the added writers of a class are handed over as ONE slog.LWs group
	Runs   []c13Run `json:"runs"`
}

type c13Job struct {
	Ops      []WOp      `json:"ops"`
	Level    int        `json:"level"`
	Seqs     [][]int    `json:"seqs"`
	K        int        `json:"k"`
	CoqPerM  int        `json:"coq_per_mille"` // share of the groups written out as correspondence cases
	Seed     uint64     `json:"seed"`
	Trace    bool       `json:"trace"`
	Nested   bool       `json:"nested"`
	Explicit []c13Group `json:"explicit,omitempty"` // replay: run exactly these schedules
}

type c13OutCase struct {
	Term  string   `json:"term"`
	Group c13Group `json:"group"`
	NT    bool     `json:"nt"`
}

type c13Out struct {
	Evals      int            `json:"evals"`
	Nontrivial int            `json:"nontrivial"`
	Dist       map[string]int `json:"dist"`
	Failures   []Failure      `json:"failures"`
	Cases      []c13OutCase   `json:"cases"`
}

// ---- configurations: 1-3 normal, 1-3 error, 0/1/3 writers for a leveled severity, 0/1/2 for Warn itself ----
func c13Configs() [][]WOp {
	normals := [][]int{{1}, {1, 2}, {1, 2, 3}}
	errs := [][]int{{4}, {4, 5}, {4, 5, 6}}
	lv9 := [][]int{{}, {2}, {2, 5, 3}}
	lv3 := [][]int{{}, {6}, {6, 1}}
	var out [][]WOp
	for _, n := range normals {
		for _, e := range errs {
			for _, a := range lv9 {
				for _, b := range lv3 {
					var ops []WOp
					for i, w := range n {
						k := "AddW"
						if i == 0 {
							k = "SetW"
						}
						ops = append(ops, WOp{Kind: k, W: w})
					}
					for i, w := range e {
						k := "AddE"
						if i == 0 {
							k = "SetE"
						}
						ops = append(ops, WOp{Kind: k, W: w})
					}
					for _, w := range a {
						ops = append(ops, WOp{Kind: "AddL", L: 9, W: w})
					}
					for _, w := range b {
						ops = append(ops, WOp{Kind: "AddL", L: 3, W: w})
					}
					out = append(out, ops)
				}
			}
		}
	}
	return out
}

func c13Seqs(maxLen int) [][]int {
	var out [][]int
	var rec func(p []int)
	rec = func(p []int) {
		if len(p) > 0 {
			out = append(out, append([]int(nil), p...))
		}
		if len(p) == maxLen {
			return
		}
		for _, s := range c13Sevs {
			rec(append(p, s))
		}
	}
	rec(nil)
	sort.SliceStable(out, func(a, b int) bool { return len(out[a]) < len(out[b]) }) // short ones first: the first failing input is small
	return out
}

// ---- the child: runs a batch on the implementation under the direct oracle ----
type c13Runaway struct{}

type c13Env struct {
	errdev     map[int]bool
	errdevList []int
	as         map[int]int
	dbg        bool
	inTesting  bool
	flags      int64
}

func c13Setup() c13Env {
	slog.AddFlags(slog.LnoInterrupt)
	_ = slog.RegisterLevel(slog.Level(c13Custom), "c13err", slog.RegWithPrintToErrorDevice(true), slog.RegWithTreatedAsLevel(slog.ErrorLevel))
	is.SetDebugMode(false)
	is.SetTraceMode(false)
	env := c13Env{errdev: map[int]bool{}, as: c13TreatedAs(), dbg: false, inTesting: slog.VerifInTesting(), flags: int64(slog.GetFlags())}
	for _, l := range slog.VerifErrDev() {
		env.errdev[int(l)] = true
		env.errdevList = append(env.errdevList, int(l))
	}
	sort.Ints(env.errdevList)
	return env
}

func c13Call(e *slog.Entry, lvl, i int) {
	msg := fmt.Sprintf("c13-msg-%d", i)
	switch lvl {
	case 4:
		e.Info(msg, "k", i)
	case 2:
		e.Error(msg, "k", i)
	case 3:
		e.Warn(msg, "k", i)
	case 9:
		e.OK(msg, "k", i)
	default:
		e.LogAttrs(nil, slog.Level(lvl), msg, "k", i)
	}
}

func c13Fingerprint(e *slog.Entry) string {
	v := slog.VerifViewOf(e)
	var lv []string
	for k, ws := range v.Leveled {
		lv = append(lv, fmt.Sprintf("%d:%v", int(k), widsOf(ws)))
	}
	sort.Strings(lv)
	return fmt.Sprintf("level=%d normal=%v error=%v leveled=%v json=%v color=%v", int(v.Level), widsOf(v.Normal), widsOf(v.Error), lv, v.JSON, v.Color)
}

// c13Nested: see c13Group.Nested (set per batch in the child)
var c13Nested bool

// a member of a group of destinations
type c13Member struct{ io.Writer }

func (c13Member) Close() error { return nil }

type c13Result struct {
	obs      [][]c13Att
	payloads [][][]byte
	panics   []string // per call: "" = returned normally
	choices  []bool   // the decisions the run asked for (first K attempts of the scheduled calls)
	nfail    int
	before   string
	after    string
}

// one schedule on a fresh logger.  choices: forced prefix (extended with "succeed" while attempts
// within the first k are asked for during the scheduled calls); forever: all attempts fail.
func c13RunOnce(ops []WOp, level int, calls []int, probe bool, choices []bool, k int, forever bool) c13Result {
	res := c13Result{choices: append([]bool(nil), choices...)}
	e := slog.VerifEntryOf(slog.New("c13"))
	if c13Nested {
		// the writers added after the first of a class arrive as one group (as when another logger's
		// GetWriterBy result is passed on): same destinations, same order
		var nw, ew slog.LWs
		for _, o := range ops {
			switch o.Kind {
			case "AddW":
				nw = append(nw, c13Member{pool[o.W]})
			case "AddE":
				ew = append(ew, c13Member{pool[o.W]})
			default:
				applyWop(e, o)
			}
		}
		// the group is what another logger's GetWriterBy hands out (its whole writer list of that class)
		if len(nw) > 0 || len(ew) > 0 {
			src := slog.VerifEntryOf(slog.New("c13src"))
			for i, m := range nw {
				if i == 0 {
					src.SetWriter(m)
				} else {
					src.AddWriter(m)
				}
			}
			for i, m := range ew {
				if i == 0 {
					src.SetErrorWriter(m)
				} else {
					src.AddErrorWriter(m)
				}
			}
			if len(nw) > 0 {
				e.AddWriter(src.GetWriterBy(slog.InfoLevel))
			}
			if len(ew) > 0 {
				e.AddErrorWriter(src.GetWriterBy(slog.ErrorLevel))
			}
		}
	} else {
		for _, o := range ops {
			applyWop(e, o)
		}
	}
	e.SetLevel(slog.Level(level)).SetColorMode(false)
	historyPrelude(level*5 + len(ops)*3 + len(calls)*7 + len(choices))
	res.before = c13Fingerprint(e)
	events = nil
	attempts = 0
	// the kind of failure of this run (a function of the run): rotating, or one kind throughout - two destinations
	// that fail one after the other then fail in the same way, with errors of the same dynamic type
	nf := 0
	for _, b := range choices {
		if b {
			nf++
		}
	}
	faultFlavour = (level+len(calls)+nf)%6 - 1
	defer func() { faultFlavour = -1 }()
	if (level+2*len(calls)+len(ops)+nf)%3 == 0 { // in a third of the runs every other destination misreports its count
		successSkew = func(w int, n int) int {
			if w%2 == 0 {
				return -1
			}
			if w%3 == 0 {
				return 2
			}
			return 0
		}
		defer func() { successSkew = nil }()
	}
	inCall := 0
	scheduled := true
	var fails []bool
	failPlan = func(w int, a int) bool {
		inCall++
		if inCall > c13MaxAttemptsPerCall {
			panic(c13Runaway{})
		}
		f := false
		switch {
		case forever:
			f = true
		case a < len(res.choices):
			f = res.choices[a]
		case scheduled && a < k && a == len(res.choices):
			res.choices = append(res.choices, false)
		}
		fails = append(fails, f)
		return f
	}
	for i, lvl := range calls {
		if probe && i == len(calls)-1 {
			scheduled = false
		}
		start, fstart := len(events), len(fails)
		inCall = 0
		p := ""
		func() {
			defer func() {
				if rec := recover(); rec != nil {
					if _, ok := rec.(c13Runaway); ok {
						p = "runaway"
					} else {
						p = "panic: " + fmt.Sprint(rec)
					}
				}
			}()
			c13Call(e, lvl, i)
		}()
		res.panics = append(res.panics, p)
		var atts []c13Att
		var pls [][]byte
		j := fstart
		for _, ev := range events[start:] {
			if ev.Kind != "write" {
				continue
			}
			a := c13Att{W: ev.W, Diag: bytes.Contains(ev.Payload, []byte(c13DiagMsg))}
			if j < len(fails) {
				a.Failed = fails[j]
				if fails[j] {
					res.nfail++
				}
			}
			j++
			atts = append(atts, a)
			pls = append(pls, ev.Payload)
		}
		res.obs = append(res.obs, atts)
		res.payloads = append(res.payloads, pls)
		if os.Getenv("C13_DEBUG") != "" {
			for j, pl := range pls {
				fmt.Fprintf(os.Stderr, "call %d severity %d -> writer %d failed=%v: %q\n", i, lvl, atts[j].W, atts[j].Failed, pl)
			}
		}
	}
	failPlan = nil
	res.after = c13Fingerprint(e)
	return res
}

var c13LevelRe = levelRe

// the statement, checked on one run; returns the failures (key, description)
func c13Oracle(env c13Env, ops []WOp, level int, calls []int, probe bool, res c13Result) (out [][2]string) {
	spec := confDefault()
	for _, o := range ops {
		spec.apply(o)
	}
	fail := func(key, format string, a ...any) { out = append(out, [2]string{key, fmt.Sprintf(format, a...)}) }
	failedBefore := false
	for i, lvl := range calls {
		atts := res.obs[i]
		if res.panics[i] == "runaway" {
			fail("C13/cascade", "call %d (severity %d): more than %d Write attempts within one logging call - the reaction to a failing Write does not end (attempts so far: %s)",
				i, lvl, c13MaxAttemptsPerCall, c13Brief(atts))
			return
		}
		if res.panics[i] != "" {
			fail("C13/panic", "call %d (severity %d) did not return normally: %s", i, lvl, res.panics[i])
			return
		}
		adm := specAdmits(env.as, env.dbg, level, lvl)
		var origW, diagW []int
		anyFailed := false
		msg := []byte(fmt.Sprintf("c13-msg-%d", i))
		var first []byte
		for j, a := range atts {
			pl := res.payloads[i][j]
			if a.Diag {
				diagW = append(diagW, a.W)
				if !bytes.HasSuffix(pl, []byte("\n")) {
					fail("C13/incomplete-record", "call %d: the diagnostic sent to writer %d does not end with a newline: %q", i, a.W, pl)
				}
				if m := c13LevelRe.FindSubmatch(pl); m != nil {
					if lv, err := slog.ParseLevel(string(m[1])); err == nil && int(lv) != 3 {
						fail("C13/diagnostic-severity", "call %d: the diagnostic is a record of severity %s, not a warning: %q", i, m[1], pl)
					}
				}
				continue
			}
			if !bytes.Contains(pl, msg) {
				fail("C13/garbled-record", "call %d: writer %d received %q, which is neither the record nor the diagnostic", i, a.W, pl)
				continue
			}
			if len(diagW) > 0 {
				fail("C13/order", "call %d: writer %d received the record after a diagnostic had already been sent", i, a.W)
			}
			origW = append(origW, a.W)
			if a.Failed {
				anyFailed = true
			}
			if first == nil {
				first = pl
			}
			if !bytes.HasSuffix(pl, []byte("\n")) || !bytes.Equal(pl, first) {
				fail("C13/incomplete-record", "call %d: writer %d received %q, the first destination received %q", i, a.W, pl, first)
			}
		}
		var expO []int
		if adm {
			expO = spec.route(env.errdev, lvl)
		}
		if fmt.Sprint(origW) != fmt.Sprint(append([]int{}, expO...)) {
			key := "C13/lost-record"
			if len(origW) > len(expO) {
				key = "C13/duplicate-record"
			}
			ownFailure := false
			for _, a := range atts {
				ownFailure = ownFailure || a.Failed
			}
			if !ownFailure && failedBefore && len(origW) < len(expO) {
				key = "C13/sticky"
			}
			fail(key, "call %d (severity %d, logger level %d): the record was attempted on %v, its destinations are %v (attempts: %s)", i, lvl, level, origW, expO, c13Brief(atts))
		}
		trig := adm && anyFailed && lvl != 3 && specAdmits(env.as, env.dbg, level, 3)
		var expD []int
		if trig {
			expD = spec.route(env.errdev, 3)
		}
		if fmt.Sprint(diagW) != fmt.Sprint(append([]int{}, expD...)) {
			inExp := map[int]int{}
			for _, w := range expD {
				inExp[w]++
			}
			outside := false
			for _, w := range diagW {
				if inExp[w] == 0 {
					outside = true
				}
			}
			key := ""
			switch {
			case !trig && lvl == 3:
				key = "C13/cascade"
			case !trig && !anyFailed:
				key = "C13/spurious-diagnostic"
			case !trig:
				key = "C13/diagnostic-not-gated"
			case outside:
				key = "C13/diagnostic-destination"
			case len(diagW) > len(expD):
				key = "C13/cascade"
			case len(diagW) < len(expD):
				key = "C13/diagnostic-count"
			default:
				key = "C13/diagnostic-destination"
			}
			fail(key, "call %d (severity %d, logger level %d, a Write of the record failed: %v): the diagnostic was attempted on %v, expected %v (attempts: %s)",
				i, lvl, level, anyFailed, diagW, expD, c13Brief(atts))
		}
		for _, a := range atts {
			failedBefore = failedBefore || a.Failed
		}
	}
	if res.before != res.after {
		fail("C13/sticky", "the logger's configuration changed during logging: before %s, after %s", res.before, res.after)
	}
	return
}

func c13Brief(atts []c13Att) string {
	var sb strings.Builder
	for i, a := range atts {
		if i > 12 {
			sb.WriteString(" ...")
			break
		}
		k, f := "rec", "ok"
		if a.Diag {
			k = "diag"
		}
		if a.Failed {
			f = "FAIL"
		}
		fmt.Fprintf(&sb, " %d:%s:%s", a.W, k, f)
	}
	return strings.TrimSpace(sb.String())
}

func c13SchedZ(run c13Run) string {
	if run.Forever {
		return "(-1)"
	}
	var z int64
	for i, b := range run.Sched {
		if b {
			z |= 1 << uint(i)
		}
	}
	return cZ(z)
}

func c13Term(env c13Env, g c13Group) string {
	var oc []string
	for _, o := range g.Ops {
		oc = append(oc, o.Coq())
	}
	var runs []string
	for _, run := range g.Runs {
		var per []string
		for _, atts := range run.Obs {
			var cs []int
			for _, a := range atts {
				c := 4 * a.W
				if a.Diag {
					c += 2
				}
				if a.Failed {
					c++
				}
				cs = append(cs, c)
			}
			per = append(per, cInts(cs))
		}
		runs = append(runs, fmt.Sprintf("(%s, %s)", c13SchedZ(run), cList(per)))
	}
	return fmt.Sprintf("mk %s %s %s %s %s %s %s %s %s", cInts(env.errdevList), asCoq(env.as), cBool(env.dbg), cBool(env.inTesting),
		cZ(env.flags), cList(oc), cZ(int64(g.Level)), cInts(g.Calls), cList(runs))
}

func c13ChildMain(args []string) {
	debug.SetMaxStack(4 << 20) // a logging call needs a few kB; a runaway recursion dies within milliseconds
	var job c13Job
	must(json.NewDecoder(os.Stdin).Decode(&job))
	env := c13Setup()
	// this process reports on stdout: what the package's default logger prints (e.g. the warning of a failed
	// ParseLevel in the history prelude) must not end up there
	slog.VerifEntryOf(slog.Default()).SetWriter(io.Discard).SetErrorWriter(io.Discard)
	c13Nested = job.Nested
	out := c13Out{Dist: map[string]int{}}
	rng := &Rng{job.Seed}
	perKey := map[string]int{}
	trace := func(g c13Group) {
		if job.Trace {
			b, _ := json.Marshal(g)
			os.Stderr.Write(append(append([]byte("RUN "), b...), '\n'))
		}
	}
	one := func(g *c13Group, choices []bool, forever bool, k int, keep bool) c13Result {
		single := c13Group{Ops: g.Ops, Level: g.Level, Calls: g.Calls, Probe: g.Probe, Nested: job.Nested, Runs: []c13Run{{Sched: choices, Forever: forever}}}
		trace(single)
		res := c13RunOnce(g.Ops, g.Level, g.Calls, g.Probe, choices, k, forever)
		run := c13Run{Sched: append([]bool{}, res.choices...), Forever: forever, Obs: res.obs}
		single.Runs[0] = run
		out.Evals++
		if res.nfail > 0 {
			out.Nontrivial++
		}
		nf := 0
		for _, b := range res.choices {
			if b {
				nf++
			}
		}
		if forever {
			out.Dist["schedule=every-attempt-fails"]++
		} else {
			out.Dist[fmt.Sprintf("schedule_failures=%d", nf)]++
			out.Dist[fmt.Sprintf("schedule_bits=%d", len(res.choices))]++
		}
		for i, atts := range res.obs {
			nd := 0
			for _, a := range atts {
				if a.Diag {
					nd++
				}
			}
			if !(g.Probe && i == len(g.Calls)-1) {
				out.Dist[fmt.Sprintf("severity=%d", g.Calls[i])]++
			}
			if nd > 0 {
				out.Dist["calls_with_diagnostic"]++
				out.Dist[fmt.Sprintf("diagnostic_attempts=%d", nd)]++
			} else if len(atts) > 0 {
				out.Dist["calls_delivered_without_diagnostic"]++
			} else {
				out.Dist["calls_not_admitted"]++
			}
		}
		for _, f := range c13Oracle(env, g.Ops, g.Level, g.Calls, g.Probe, res) {
			out.Dist["oracle_fail:"+f[0]]++
			if perKey[f[0]] < 5 {
				perKey[f[0]]++
				out.Failures = append(out.Failures, Failure{f[0], f[1], single})
			}
		}
		if keep {
			g.Runs = append(g.Runs, run)
		}
		return res
	}
	if len(job.Explicit) > 0 {
		for _, g0 := range job.Explicit {
			g := c13Group{Ops: g0.Ops, Level: g0.Level, Calls: g0.Calls, Probe: g0.Probe, Nested: job.Nested}
			nt := false
			for _, run := range g0.Runs {
				res := one(&g, run.Sched, run.Forever, len(run.Sched), true)
				nt = nt || res.nfail > 0
			}
			out.Cases = append(out.Cases, c13OutCase{Term: c13Term(env, g), Group: g, NT: nt})
		}
	} else {
		for _, seq := range job.Seqs {
			calls := append(append([]int{}, seq...), seq[0])
			g := c13Group{Ops: job.Ops, Level: job.Level, Calls: calls, Probe: true, Nested: job.Nested}
			keep := rng.Intn(1000) < job.CoqPerM
			nt := false
			// depth-first over the decisions the run asks for: every assignment to the first K attempts, once
			choices := []bool{}
			for {
				res := one(&g, choices, false, job.K, keep)
				nt = nt || res.nfail > 0
				choices = res.choices
				for len(choices) > 0 && choices[len(choices)-1] {
					choices = choices[:len(choices)-1]
				}
				if len(choices) == 0 {
					break
				}
				choices[len(choices)-1] = true
			}
			res := one(&g, nil, true, 0, keep)
			nt = nt || res.nfail > 0
			if keep {
				out.Cases = append(out.Cases, c13OutCase{Term: c13Term(env, g), Group: g, NT: nt})
			}
		}
	}
	b, err := json.Marshal(out)
	must(err)
	os.Stdout.Write(b)
}

// ---- the parent ----
var c13Traced = map[string]bool{}

type c13Batch struct {
	job c13Job
	out *c13Out
	err string // child died / timed out
	log string
}

func c13Spawn(job c13Job, timeout time.Duration) (out *c13Out, errs string, stderr string) {
	exe, err := os.Executable()
	must(err)
	in, _ := json.Marshal(job)
	cmd := exec.Command(exe, "C13-child")
	cmd.Stdin = bytes.NewReader(in)
	var so, se bytes.Buffer
	cmd.Stdout, cmd.Stderr = &so, &se
	must(cmd.Start())
	done := make(chan error, 1)
	go func() { done <- cmd.Wait() }()
	select {
	case err = <-done:
	case <-time.After(timeout):
		cmd.Process.Kill()
		<-done
		return nil, fmt.Sprintf("no result within %v (killed)", timeout), se.String()
	}
	if err != nil {
		return nil, "child process died: " + err.Error(), se.String()
	}
	var o c13Out
	if e := json.Unmarshal(so.Bytes(), &o); e != nil {
		return nil, "child process produced no result: " + e.Error(), se.String()
	}
	return &o, "", se.String()
}

// a batch whose child died is run again with tracing, to name the schedule it died on
func c13Culprit(job c13Job, timeout time.Duration) (g *c13Group, tailLog string) {
	job.Trace = true
	_, _, se := c13Spawn(job, timeout)
	lines := strings.Split(se, "\n")
	last := ""
	var rest []string
	for _, l := range lines {
		if strings.HasPrefix(l, "RUN ") {
			last = l[4:]
			rest = nil
		} else if l != "" {
			rest = append(rest, l)
		}
	}
	if len(rest) > 12 {
		rest = rest[:12]
	}
	if last == "" {
		return nil, strings.Join(rest, " | ")
	}
	var gg c13Group
	if json.Unmarshal([]byte(last), &gg) != nil {
		return nil, strings.Join(rest, " | ")
	}
	return &gg, strings.Join(rest, " | ")
}

func c13Merge(r *Run, b *c13Batch, timeout time.Duration) {
	if b.out == nil && b.err == "skipped" {
		r.Dist["batches_skipped_after_a_hang"]++
		return
	}
	if b.out == nil {
		key := "C13/crash"
		if strings.Contains(b.err, "no result within") {
			key = "C13/hang"
		}
		if strings.Contains(b.log, "stack exceeds") {
			key = "C13/cascade"
		}
		r.Evals++
		if c13Traced[key] {
			r.Dist["oracle_fail:"+key]++ // the first batch that died this way names the schedule
			return
		}
		c13Traced[key] = true
		g, tl := c13Culprit(b.job, timeout)
		var rp any = b.job
		where := "the batch"
		if g != nil {
			rp = *g
			where = fmt.Sprintf("calls %v on logger level %d under schedule %v (forever=%v)", g.Calls, g.Level, g.Runs[0].Sched, g.Runs[0].Forever)
		}
		r.Fail(key, fmt.Sprintf("the process running the logging calls did not survive: %s; %s; %s", b.err, where, tl), rp)
		return
	}
	o := b.out
	r.Evals += o.Evals
	r.DistinctExtra += o.Nontrivial
	for k, v := range o.Dist {
		if strings.HasPrefix(k, "oracle_fail:") {
			continue // counted by r.Fail below (at most 5 per key and batch are carried over)
		}
		r.Dist[k] += v
	}
	for _, f := range o.Failures {
		r.Fail(f.Key, f.Desc, f.Replay)
	}
	for _, c := range o.Cases {
		r.AddCaseOnly(c.Term, c.Group)
	}
	r.Dist[fmt.Sprintf("logger_level=%d", b.job.Level)] += o.Evals
}

const c13Header = "Require Import Verif.Model.Base Verif.Model.Writers Verif.Corr.C13."

func runC13(r *Run) {
	r.Coq(c13Header, "case", "ok")
	r.ShardSize = r.N(40, 60)
	cfgs := c13Configs()
	k := r.N(5, 8)
	var chosen [][]WOp
	if r.Thorough() {
		chosen = cfgs
	} else {
		// a sample of a third of the configurations; the smallest and the largest are always in
		pick := map[int]bool{0: true, len(cfgs) - 1: true}
		for len(pick) < 27 {
			pick[r.R.Intn(len(cfgs))] = true
		}
		for i, c := range cfgs {
			if pick[i] {
				chosen = append(chosen, c)
			}
		}
	}
	seqs := c13Seqs(3)
	perM := r.N(100, 80)
	timeout := time.Duration(r.N(60, 600)) * time.Second
	var batches []*c13Batch
	for ci, c := range chosen {
		for li, L := range c13Levels {
			batches = append(batches, &c13Batch{job: c13Job{Ops: c, Level: L, Seqs: seqs, K: k, CoqPerM: perM, Seed: r.R.U64(), Nested: (ci+li)%2 == 1}})
		}
	}
	sem := make(chan struct{}, 14)
	var hung atomic.Bool
	var wg sync.WaitGroup
	for _, b := range batches {
		wg.Add(1)
		sem <- struct{}{}
		go func(b *c13Batch) {
			defer wg.Done()
			defer func() { <-sem }()
			if hung.Load() { // do not wait for the timeout again and again
				b.err = "skipped"
				return
			}
			b.out, b.err, b.log = c13Spawn(b.job, timeout)
			if b.out == nil && strings.Contains(b.err, "no result within") {
				hung.Store(true)
			}
		}(b)
	}
	wg.Wait()
	for _, b := range batches {
		c13Merge(r, b, timeout)
	}
	c13DefaultCheck(r)
	c13CloseThenLog(r)
	r.Dist["configurations"] = len(chosen)
	r.Dist["call_sequences"] = len(seqs)
	r.Exhaust = r.Thorough()
	r.Extra["exhaustive_space"] = fmt.Sprintf("%d configurations x %d logger levels x %d call sequences (length 1..3 over %d severity classes, plus a recovery probe) x every fail/succeed assignment to the first %d Write attempts (then all succeed) + the schedule on which every attempt fails",
		len(chosen), len(c13Levels), len(seqs), len(c13Sevs), k)
	r.Extra["correspondence_sample_per_mille"] = perM
	r.Rule = "writer sets with 1-3 normal, 1-3 error, 0/1/3 writers for a leveled severity and 0/1/2 for Warn itself (81 configurations; quick: 27 of them) x logger level in {Error, Warn, Info, Always, Off} (in every other batch the writers added after the first of the normal / error class are handed over as ONE slog.LWs group, the destinations and their order being the same) x every sequence of 1-3 calls over {Info, Error, Warn, leveled OK, registered error-device level 13} followed by a recovery probe x ALL assignments of fail/succeed to the first K Write attempts (K=5 quick, 8 thorough; enumerated depth-first over the attempts that occur, later attempts succeed) plus the every-attempt-fails schedule; a failing Write returns (0, err), (n/2, io.ErrShortWrite), (n/2, err) or an error of an uncomparable type, rotating or one kind for the whole run; each batch in a child process (stack limit, timeout, per-call attempt bound); the direct oracle runs on every schedule, a pseudo-random share of the (configuration, level, sequence) groups goes to the Coq model with all their schedules; non-trivial = at least one Write failed; plus one process whose standard output is closed and that logs through loggers WITHOUT writers of their own (New, a child, WithAttrs, the package-level functions; three formats): every call returns, at most one diagnostic, records for standard error delivered once; distinct by construction (configuration, level, severities, schedule are enumerated without repetition)"
}

func replayC13(r *Run, file string) {
	var g c13Group
	loadReplay(file, &g)
	r.Coq(c13Header, "case", "ok")
	if len(g.Ops) == 0 && len(g.Calls) == 0 { // a finding of the default-destination process or of close-then-log (c13_default.go): run them again
		c13DefaultCheck(r)
		c13CloseThenLog(r)
		finishReplay(r)
		return
	}
	job := c13Job{Explicit: []c13Group{g}, Ops: g.Ops, Level: g.Level, Nested: g.Nested}
	b := &c13Batch{job: job}
	b.out, b.err, b.log = c13Spawn(job, 120*time.Second)
	c13Merge(r, b, 120*time.Second)
	finishReplay(r)
}

// the treated-as relation of the statement for this driver's process: the built-ins plus the
// custom level this driver registers as Error (never read back from the implementation's table)
func c13TreatedAs() map[int]int {
	as := treatedAs()
	as[c13Custom] = 2
	return as
}
