package main

// C06 under go test: the multi-line error dump.
//
// Under go test (or a debugger) a coloured or logfmt record that carries an error value is
// followed, inside the same Write, by a dump of that error (PrintCtx.appendErrorAfterPrinted).
// The statement of C06 allows the dump ONE thing: it may keep one colour across its own lines.
// Everything else still holds and is checked here on the real code, in a `go test -c` binary of
// this package (is.InTesting() is true there; the same binary C12 uses):
//
//   - the record is one Write that ends with a line feed;
//   - what precedes the dump is byte for byte the record of the production process (so the
//     layout verified there carries over);
//   - when the record ends every colour is off and no escape byte that is not a colour
//     sequence of the encoder has been written (messages without escape bytes);
//   - attribute values - the error text included - contribute no raw escape or control bytes
//     other than the line breaks of the dump: differential test, the record is formatted again
//     with the control bytes of the values replaced.
//
// The parent (production harness) formats the same records itself and compares.

import (
	"bytes"
	"encoding/base64"
	"encoding/gob"
	"encoding/json"
	"fmt"
	"github.com/hedzr/is"
	"io"
	"os"
	"os/exec"
	"path/filepath"
	"strconv"
	"strings"
	"time"

	"github.com/hedzr/logg/slog"
)

func init() { childModes["C06-testing"] = c06TestingChild }

type c06TIn struct {
	Recs []EncRec
}

type c06TOut struct {
	InTesting bool       `json:"in_testing"`
	Payloads  [][]string `json:"payloads"` // per record: base64 of every Write
	Sanitized [][]string `json:"sanitized"`
}

func c06TestingChild(args []string) {
	raw, err := io.ReadAll(os.Stdin)
	must(err)
	dec, err := base64.StdEncoding.DecodeString(strings.TrimSpace(string(raw)))
	must(err)
	var in c06TIn
	must(gob.NewDecoder(bytes.NewReader(dec)).Decode(&in))
	snap := slog.VerifSnapshot()
	encSetup(snap)
	out := c06TOut{InTesting: slog.VerifInTesting()}
	enc := func(ps [][]byte) []string {
		var o []string
		for _, p := range ps {
			o = append(o, base64.StdEncoding.EncodeToString(p))
		}
		return o
	}
	for _, rec := range in.Recs {
		out.Payloads = append(out.Payloads, enc(rec.emit()))
		san, _ := sanitizeValues(rec.Attrs)
		r2 := rec
		r2.Attrs = san
		out.Sanitized = append(out.Sanitized, enc(r2.emit()))
	}
	b, _ := json.Marshal(out)
	os.Stdout.Write(b)
}

type c06TCase struct {
	Rec        EncRec `json:"record"`
	Exact      string `json:"exact_gob_base64,omitempty"`
	Production string `json:"production_bytes"`
	Testing    string `json:"testing_bytes"`
	Why        string `json:"why"`
}

func hasErrorAttr(as []GAttr) bool {
	for _, a := range as {
		if a.Nil {
			continue
		}
		if a.Val.Kind == "error" || a.Val.Kind == "stackerr" || a.Val.Kind == "fmterr" {
			return true
		}
		if a.Val.Kind == "group" && hasErrorAttr(a.Val.Items) {
			return true
		}
	}
	return false
}

// records of the dump corpus: error texts that are plain, multi-line, carry escape / control bytes, stack-carrying errors
func c06TestingCorpus() []EncRec {
	var out []EncRec
	texts := []string{"boom", "two\nlines", "with \x1b[31mred\x1b[0m escape", "bell\a and del\x7f", "tab\tand cr\r", "clear \x1b[2J screen", ""}
	for _, mode := range []string{"color", "logfmt"} {
		for i, t := range texts {
			for _, kind := range []string{"error", "stackerr", "fmterr"} {
				cfg := EncCfg{Mode: mode, Level: []int{2, 4, 3}[i%3], TagWidth: 3, MinWidth: 36, Caller: false}
				out = append(out, EncRec{cfg, "msg", []GAttr{{Key: "a", Val: GVal{Kind: "int", I: 1}}, {Key: "err", Val: GVal{Kind: kind, S: t}}}})
				out = append(out, EncRec{cfg, "first\nsecond\n", []GAttr{{Key: "err", Val: GVal{Kind: kind, S: t}}, {Key: "z", Val: GVal{Kind: "string", S: "last"}}}})
			}
		}
	}
	return out
}

// c06Testing runs the records in the test binary and judges them; recs are colour/logfmt records with an error value
func c06Testing(r *Run, recs []EncRec) {
	exe, err := os.Executable()
	must(err)
	bin := filepath.Join(filepath.Dir(exe), "harness.test")
	if _, err := os.Stat(bin); err != nil {
		fmt.Fprintln(os.Stderr, "harness: C06 needs the test binary", bin, "(built by ./check C06: go test -c)")
		os.Exit(3)
	}
	// (the caller field names the function, whose package path differs between the two binaries: off)
	for i := range recs {
		recs[i].Cfg.Caller = false
	}
	var buf bytes.Buffer
	must(gob.NewEncoder(&buf).Encode(c06TIn{recs}))
	cmd := exec.Command(bin, "-test.run=^$", "C06-testing")
	cmd.Stdin = strings.NewReader(base64.StdEncoding.EncodeToString(buf.Bytes()))
	var so, se bytes.Buffer
	cmd.Stdout, cmd.Stderr = &so, &se
	t := time.AfterFunc(120*time.Second, func() { _ = cmd.Process.Kill() })
	err = cmd.Run()
	t.Stop()
	var out c06TOut
	if err != nil || json.Unmarshal(so.Bytes(), &out) != nil || len(out.Payloads) != len(recs) {
		fmt.Fprintf(os.Stderr, "harness: C06 testing-mode child failed: %v\n%s\n", err, se.String())
		os.Exit(3)
	}
	if !out.InTesting {
		fmt.Fprintln(os.Stderr, "harness: C06 testing-mode child does not run in testing mode")
		os.Exit(3)
	}
	dec := func(ss []string) [][]byte {
		var o [][]byte
		for _, s := range ss {
			b, _ := base64.StdEncoding.DecodeString(s)
			o = append(o, b)
		}
		return o
	}
	for i, rec := range recs {
		prod := rec.emit()
		tp, sp := dec(out.Payloads[i]), dec(out.Sanitized[i])
		r.Dist["testing-mode:records"]++
		r.Dist["testing-mode:"+rec.Cfg.Mode]++
		fail := func(key, why string) {
			c := c06TCase{Rec: rec, Why: why}
			var gb bytes.Buffer
			_ = gob.NewEncoder(&gb).Encode(rec)
			c.Exact = base64.StdEncoding.EncodeToString(gb.Bytes())
			if len(prod) > 0 {
				c.Production = strconv.Quote(string(prod[0]))
			}
			if len(tp) > 0 {
				c.Testing = strconv.Quote(string(tp[0]))
			}
			r.Fail(key, why, c)
		}
		r.Count(true, fmt.Sprintf("testing %+v", rec))
		if len(tp) != 1 || len(prod) != 1 {
			fail("C06/testing-dump/framing", fmt.Sprintf("under go test: %d Write(s) for one record (production: %d)", len(tp), len(prod)))
			continue
		}
		T, P := tp[0], prod[0]
		if !bytes.HasSuffix(T, []byte("\n")) {
			fail("C06/testing-dump/framing", "under go test: the record does not end with a line feed")
			continue
		}
		if !bytes.HasPrefix(T, bytes.TrimSuffix(P, []byte("\n"))) {
			fail("C06/testing-dump/record-differs", "under go test: what precedes the error dump is not the record of the production process")
			continue
		}
		if len(T) > len(P) {
			r.Dist["testing-mode:with-dump"]++
		}
		// the dump (what follows the production record; the production part is judged by the main oracle): it may keep a
		// colour across its own lines, but when the record ends every colour is off, and it holds no escape byte that
		// is not a colour sequence of the encoder (error texts without control bytes)
		if dump := T[len(P)-1:]; len(dump) > 1 {
			if _, changed := sanitizeValues(rec.Attrs); !changed {
				// (line breaks taken out: a colour kept across the dump's own lines is the one thing it may do)
				if _, v := sgrScan(bytes.ReplaceAll(dump, []byte("\n"), []byte(" "))); v != "" {
					fail("C06/testing-dump/hygiene", "under go test, in the error dump: "+v)
					continue
				}
			}
		}
		// a logfmt record stays free of colour sequences, dump included (the colours belong to the coloured format)
		if rec.Cfg.Mode == "logfmt" && !strings.Contains(rec.Msg, "\x1b") {
			if _, changed := sanitizeValues(rec.Attrs); !changed && bytes.IndexByte(T, 0x1b) >= 0 {
				fail("C06/testing-dump/logfmt-colour", fmt.Sprintf("under go test: a logfmt record (error dump included) holds an escape byte at offset %d although neither the message nor a value does", bytes.IndexByte(T, 0x1b)))
				continue
			}
		}
		// values contribute no raw control bytes (LF of the dump's own line structure aside)
		if len(sp) == 1 {
			a, b := ctlProfileNoLF(T), ctlProfileNoLF(sp[0])
			if a != b {
				fail("C06/testing-dump/values", fmt.Sprintf("under go test: an attribute value (the error text in the dump) contributes raw control bytes to the record: control bytes %s, with the values' control bytes replaced %s", a, b))
			}
		}
	}
}

// c06DebugEnv: the same records in a PRODUCTION process (this binary, not a go test binary) started with DEBUG=1 in
// its environment.  That variable selects the start level of the package; the error dump belongs to go test runs and
// debuggers (statement of C06), so every record is byte for byte what this process - started without it - writes.
func c06DebugEnv(r *Run, id string, recs []EncRec) {
	if len(recs) == 0 {
		return
	}
	exe, err := os.Executable()
	must(err)
	for i := range recs {
		recs[i].Cfg.Caller = false
	}
	var buf bytes.Buffer
	must(gob.NewEncoder(&buf).Encode(c06TIn{recs}))
	cmd := exec.Command(exe, "C06-testing")
	cmd.Env = append(os.Environ(), "DEBUG=1")
	cmd.Stdin = strings.NewReader(base64.StdEncoding.EncodeToString(buf.Bytes()))
	var so, se bytes.Buffer
	cmd.Stdout, cmd.Stderr = &so, &se
	t := time.AfterFunc(120*time.Second, func() { _ = cmd.Process.Kill() })
	err = cmd.Run()
	t.Stop()
	var out c06TOut
	if err != nil || json.Unmarshal(so.Bytes(), &out) != nil || len(out.Payloads) != len(recs) {
		r.Fail(id+"/debug-env/crash", fmt.Sprintf("a production process started with DEBUG=1 died while formatting %d records: %v: %s", len(recs), err, c08clip(se.String(), 400)), map[string]any{"kind": "debug-env"})
		return
	}
	for i, rec := range recs {
		prod := rec.emit()
		// ... and in THIS process after its process-wide debug mode was switched on (any logger's SetLevel(Debug) does
		// that): the dump belongs to go test runs and debuggers, decided when the process starts
		is.SetDebugMode(true)
		live := rec.emit()
		is.SetDebugMode(false)
		if len(live) != len(prod) || (len(live) > 0 && !bytes.Equal(live[0], prod[0])) {
			c := c06TCase{Rec: rec, Why: "the record differs once the process-wide debug mode has been switched on in a production process"}
			if len(prod) > 0 {
				c.Production = strconv.Quote(string(prod[0]))
			}
			if len(live) > 0 {
				c.Testing = strconv.Quote(string(live[0]))
			}
			r.Fail(id+"/debug-mode-live/record-differs", c.Why, c)
		}
		r.Count(true, fmt.Sprintf("debug-env %+v", rec))
		r.Dist["debug-env:"+rec.Cfg.Mode]++
		var got [][]byte
		for _, s := range out.Payloads[i] {
			b, _ := base64.StdEncoding.DecodeString(s)
			got = append(got, b)
		}
		same := len(got) == len(prod)
		for j := 0; same && j < len(got); j++ {
			same = bytes.Equal(got[j], prod[j])
		}
		if !same {
			c := c06TCase{Rec: rec, Why: "a production process started with DEBUG=1 in its environment writes another record than one started without it"}
			if len(prod) > 0 {
				c.Production = strconv.Quote(string(prod[0]))
			}
			if len(got) > 0 {
				c.Testing = strconv.Quote(string(got[0]))
			}
			r.Fail(id+"/debug-env/record-differs", c.Why, c)
		}
	}
}

func ctlProfileNoLF(b []byte) string {
	return ctlProfile(bytes.ReplaceAll(b, []byte("\n"), nil))
}
