// Correspondence and direct-oracle harness for the hedzr/logg verification.
// Usage: harness <property> -tier quick|thorough -seed N -out DIR [-replay FILE]
package main

import (
	"flag"
	"fmt"
	"os"
	"path/filepath"
	"runtime"
	"strconv"
	"strings"
)

var drivers = map[string]func(r *Run){}
var replayers = map[string]func(r *Run, file string){}

func main() {
	if len(os.Args) < 2 {
		fmt.Fprintln(os.Stderr, "usage: harness <property> [flags]")
		os.Exit(2)
	}
	id := os.Args[1]
	// child-process modes (C12, C13 ...) are dispatched before flag parsing
	if fn, ok := childModes[id]; ok {
		fn(os.Args[2:])
		return
	}
	fs := flag.NewFlagSet("harness", flag.ExitOnError)
	tier := fs.String("tier", "quick", "quick|thorough")
	seedS := fs.String("seed", "", "seed (default VERIF_SEED or 1)")
	out := fs.String("out", "", "output directory")
	replay := fs.String("replay", "", "replay file")
	fs.Parse(os.Args[2:])
	seed := uint64(1)
	if *seedS == "" {
		*seedS = os.Getenv("VERIF_SEED")
	}
	if *seedS != "" {
		if v, err := strconv.ParseUint(*seedS, 10, 64); err == nil {
			seed = v
		} else if v, err := strconv.ParseInt(*seedS, 10, 64); err == nil {
			seed = uint64(v)
		}
	}
	if *out == "" {
		exe, _ := os.Executable() // <verif>/run/bin/harness
		*out = filepath.Join(filepath.Dir(filepath.Dir(exe)), id)
	}
	r := NewRun(id, *tier, seed, *out)
	if *replay != "" {
		fn, ok := replayers[id]
		if !ok {
			fmt.Fprintln(os.Stderr, "no replayer for", id)
			os.Exit(2)
		}
		fn(r, *replay)
		return
	}
	fn, ok := drivers[id]
	if !ok {
		fmt.Fprintln(os.Stderr, "unknown property", id)
		os.Exit(2)
	}
	func() {
		// a panic raised INSIDE the library while a driver runs it on generated input is a finding with a replay (the
		// generator is deterministic: seed and tier reproduce the run), not a broken harness; a panic of the harness's own
		// code is left alone (the check then reports that the run failed)
		defer func() {
			p := recover()
			if p == nil {
				return
			}
			var pcs [64]uintptr
			n := runtime.Callers(2, pcs[:])
			frames := runtime.CallersFrames(pcs[:n])
			origin, stack := "", []string{}
			for {
				f, more := frames.Next()
				if !strings.HasPrefix(f.Function, "runtime.") {
					if origin == "" {
						origin = f.Function
					}
					stack = append(stack, fmt.Sprintf("%s %s:%d", f.Function, f.File, f.Line))
				}
				if !more {
					break
				}
			}
			if !strings.HasPrefix(origin, "github.com/hedzr/logg") {
				panic(p)
			}
			r.Fail(id+"/panic-in-library", fmt.Sprintf("the library panicked on generated input (after %d evaluations of this run): %v", r.Evals, p),
				map[string]any{"kind": "panic-in-library", "panic": fmt.Sprint(p), "stack": stack, "seed": seed, "tier": *tier, "evaluations_before": r.Evals,
					"rerun": fmt.Sprintf("VERIF_SEED=%d ./check %s --tier %s", seed, id, *tier)})
		}()
		fn(r)
	}()
	r.Finish()
}

var childModes = map[string]func(args []string){}
