package main

// Shared by the encoder properties (C04 JSON, C05 logfmt, C06 colour, C07, C09):
// generated records, their Go values, their Gallina form (Model/Attrs.v) and
// the expected decoded forms of DESIGN.md appendix A.

import (
	"errors"
	"fmt"
	"io"
	"path/filepath"
	"runtime"
	"sort"
	"strconv"
	"strings"
	"time"
	"unicode/utf8"

	"github.com/hedzr/is/term/color"
	"github.com/hedzr/logg/slog"
	errorsv3 "gopkg.in/hedzr/errors.v3"
)

// ---- values ----
type GVal struct {
	Kind  string     `json:"kind"`
	S     string     `json:"s,omitempty"` // string-like payload / pre-rendered text
	B     bool       `json:"b,omitempty"`
	I     int64      `json:"i,omitempty"`
	U     uint64     `json:"u,omitempty"`
	F     float64    `json:"f,omitempty"`
	C     [2]float64 `json:"c,omitempty"`
	Strs  []string   `json:"strs,omitempty"`
	Ints  []int64    `json:"ints,omitempty"`
	Uints []uint64   `json:"uints,omitempty"`
	Fs    []float64  `json:"fs,omitempty"`
	Bools []bool     `json:"bools,omitempty"`
	Items []GAttr    `json:"items,omitempty"`
	Ctor  int        `json:"ctor,omitempty"` // which constructor builds a group
}

type GAttr struct {
	Key string `json:"key"`
	Val GVal   `json:"val"`
	Nil bool   `json:"nil,omitempty"`
}

type stringerT struct{ s string }

func (x stringerT) String() string { return x.s }

// a value whose only text form is the library's own ToString interface
type toStringT struct{ s string }

func (x toStringT) ToString(args ...any) string { return x.s }

// a value whose only text form is encoding.TextMarshaler (no String, no Error): the text formats print the marshalled text
type textMarshT struct{ s string }

func (x textMarshT) MarshalText() ([]byte, error) { return []byte(x.s), nil }

type structT struct {
	A int
	B string
}

var fixedTime = time.Date(2024, 2, 29, 13, 14, 15, 123456789, time.UTC)

func (v GVal) durs() []time.Duration {
	var out []time.Duration
	for _, i := range v.Ints {
		out = append(out, time.Duration(i))
	}
	return out
}
func (v GVal) times() []time.Time {
	var out []time.Time
	for _, i := range v.Ints {
		out = append(out, fixedTime.Add(time.Duration(i)))
	}
	return out
}

// Go value handed to logg
func (v GVal) Go() any {
	switch v.Kind {
	case "nil":
		return nil
	case "string":
		return v.S
	case "stringer":
		return stringerT{v.S}
	case "tostring":
		return toStringT{v.S}
	case "nilptr": // a typed nil pointer: not the nil interface, printed through the %v fallback
		return (*structT)(nil)
	case "textm": // corpus of the text formats (logfmt and colour) only: an encoding.TextMarshaler
		return textMarshT{v.S}
	case "level":
		return slog.Level(v.I)
	case "error":
		return errors.New(v.S)
	case "fmterr": // testing-mode dump corpus only: an error type with its own Format method (as pkg/errors-style errors have)
		return fmtErr{v.S}
	case "stackerr": // history records only (never a probe, never sent to the model): an errors.v3 error that carries its stack
		return errorsv3.New(v.S)
	case "attrsval": // direct-oracle corpus only: an attribute list given as the VALUE of a key
		return slog.Attrs(attrsGo(v.Items))
	case "groupval": // direct-oracle corpus only: a group attribute (named v.S) given as the VALUE of a key
		return slog.NewGroupedAttr(v.S, attrsGo(v.Items)...)
	case "bool":
		return v.B
	case "int":
		return int(v.I)
	case "int8":
		return int8(v.I)
	case "int16":
		return int16(v.I)
	case "int32":
		return int32(v.I)
	case "int64":
		return v.I
	case "uint":
		return uint(v.U)
	case "uint8":
		return uint8(v.U)
	case "uint16":
		return uint16(v.U)
	case "uint32":
		return uint32(v.U)
	case "uint64":
		return v.U
	case "float32":
		return float32(v.F)
	case "float64":
		return v.F
	case "complex64":
		return complex64(complex(v.C[0], v.C[1]))
	case "complex128":
		return complex(v.C[0], v.C[1])
	case "duration":
		return time.Duration(v.I)
	case "time":
		return fixedTime.Add(time.Duration(v.I))
	case "bytes":
		return []byte(v.S)
	case "struct":
		return structT{int(v.I), v.S}
	case "map":
		return map[string]int{v.S: int(v.I)}
	case "strs":
		return append([]string{}, v.Strs...)
	case "bools":
		return append([]bool{}, v.Bools...)
	case "ints":
		out := []int{}
		for _, i := range v.Ints {
			out = append(out, int(i))
		}
		return out
	case "int64s":
		return append([]int64{}, v.Ints...)
	case "int8s":
		out := []int8{}
		for _, i := range v.Ints {
			out = append(out, int8(i))
		}
		return out
	case "int16s":
		out := []int16{}
		for _, i := range v.Ints {
			out = append(out, int16(i))
		}
		return out
	case "int32s":
		out := []int32{}
		for _, i := range v.Ints {
			out = append(out, int32(i))
		}
		return out
	case "uints":
		out := []uint{}
		for _, u := range v.Uints {
			out = append(out, uint(u))
		}
		return out
	case "uint32s":
		out := []uint32{}
		for _, u := range v.Uints {
			out = append(out, uint32(u))
		}
		return out
	case "uint64s":
		return append([]uint64{}, v.Uints...)
	case "uint16s":
		out := []uint16{}
		for _, u := range v.Uints {
			out = append(out, uint16(u))
		}
		return out
	case "float64s":
		return append([]float64{}, v.Fs...)
	case "durs":
		return v.durs()
	case "times":
		return v.times()
	}
	panic("GVal.Go: " + v.Kind)
}

func ftxt(f float64) string { return strconv.FormatFloat(f, 'f', -1, 64) }

// levelName is Level.String() for the levels the generator uses.
func levelName(l int64) string { return slog.Level(l).String() }

// Gallina term of Model/Attrs.v `value`
func (v GVal) Coq() string {
	strs := func(ss []string) string {
		var it []string
		for _, s := range ss {
			it = append(it, cStr(s))
		}
		return cList(it)
	}
	switch v.Kind {
	case "nil":
		return "VNil"
	case "string", "stringer", "tostring", "textm": // (textm occurs in the text formats only: quoted like a string since /repo 71337b7)
		return "(VStr " + cStr(v.S) + ")"
	case "level":
		return "(VStr " + cStr(levelName(v.I)) + ")"
	case "error":
		return "(VErr " + cStr(v.S) + ")"
	case "bool":
		return "(VBool " + cBool(v.B) + ")"
	case "int", "int8", "int16", "int32", "int64":
		return "(VInt " + cZ(v.Go2Int()) + ")"
	case "uint", "uint8", "uint16", "uint32", "uint64":
		return "(VUint " + strconv.FormatUint(v.Go2Uint(), 10) + ")"
	case "float32":
		return "(VFloat " + cStr(ftxt(float64(float32(v.F)))) + ")"
	case "float64":
		return "(VFloat " + cStr(ftxt(v.F)) + ")"
	case "complex64":
		return "(VComplex " + cStr(strconv.FormatComplex(complex128(complex64(complex(v.C[0], v.C[1]))), 'f', -1, 128)) + ")"
	case "complex128":
		return "(VComplex " + cStr(strconv.FormatComplex(complex(v.C[0], v.C[1]), 'f', -1, 128)) + ")"
	case "duration":
		return "(VDur " + cStr(time.Duration(v.I).String()) + ")"
	case "time":
		return "(VTime " + cStr(fixedTime.Add(time.Duration(v.I)).Format(time.RFC3339Nano)) + ")"
	case "bytes":
		return "(VBytes " + cStr(v.S) + ")"
	case "struct", "map", "nilptr":
		return "(VFallback " + cStr(fmt.Sprintf("{{%v}}", v.Go())) + ")"
	case "strs":
		return "(VStrs " + strs(v.Strs) + ")"
	case "bools":
		return "(VBools " + cBools(v.Bools) + ")"
	case "ints", "int64s", "int8s", "int16s", "int32s": // (the narrow kinds are generated within their range)
		return "(VInts " + cZs(v.Ints) + ")"
	case "uint64s", "uint16s", "uints", "uint32s":
		var it []string
		for _, u := range v.Uints {
			if v.Kind == "uint16s" {
				u = uint64(uint16(u))
			}
			it = append(it, strconv.FormatUint(u, 10))
		}
		return "(VUints " + cList(it) + ")"
	case "float64s":
		var ss []string
		for _, f := range v.Fs {
			ss = append(ss, ftxt(f))
		}
		return "(VFloats " + strs(ss) + ")"
	case "durs":
		var ss []string
		for _, d := range v.durs() {
			ss = append(ss, d.String())
		}
		return "(VDurs " + strs(ss) + ")"
	case "times":
		var ss []string
		for _, t := range v.times() {
			ss = append(ss, t.Format(time.RFC3339Nano))
		}
		return "(VTimes " + strs(ss) + ")"
	case "group":
		return "(VGroup " + attrsCoq(v.Items) + ")"
	}
	panic("GVal.Coq: " + v.Kind)
}

func (v GVal) Go2Int() int64 {
	switch v.Kind {
	case "int8":
		return int64(int8(v.I))
	case "int16":
		return int64(int16(v.I))
	case "int32":
		return int64(int32(v.I))
	}
	return v.I
}
func (v GVal) Go2Uint() uint64 {
	switch v.Kind {
	case "uint8":
		return uint64(uint8(v.U))
	case "uint16":
		return uint64(uint16(v.U))
	case "uint32":
		return uint64(uint32(v.U))
	}
	return v.U
}

func attrsCoq(as []GAttr) string {
	var it []string
	for _, a := range as {
		if a.Nil {
			it = append(it, "ANil")
		} else {
			it = append(it, fmt.Sprintf("A %s %s", cStr(a.Key), a.Val.Coq()))
		}
	}
	return cList(it)
}

// logg attributes
func attrsGo(as []GAttr) slog.Attrs {
	var out slog.Attrs
	for _, a := range as {
		if a.Nil {
			out = append(out, nil)
			continue
		}
		if a.Val.Kind == "group" {
			switch a.Val.Ctor % 2 {
			case 0:
				out = append(out, slog.NewGroupedAttr(a.Key, attrsGo(a.Val.Items)...))
			default:
				var args []any
				for _, x := range attrsGo(a.Val.Items) {
					if x != nil {
						args = append(args, x)
					}
				}
				out = append(out, slog.Group(a.Key, args...)) // note: Group pre-fills its items with nil entries
			}
			continue
		}
		out = append(out, typedAttr(a.Key, a.Val))
	}
	return out
}

// fmtErr: an error that implements fmt.Formatter; %+v prints the text and a second line
type fmtErr struct{ s string }

func (e fmtErr) Error() string { return e.s }
func (e fmtErr) Format(f fmt.State, verb rune) {
	_, _ = io.WriteString(f, e.s)
	if verb == 'v' && f.Flag('+') {
		_, _ = io.WriteString(f, "\n\tat some.Function (file.go:12)")
	}
}

// typedAttr: every other attribute (by key length) is made with the typed constructor of its kind
// (slog.Int8, slog.Uint16, slog.Float32, slog.Duration, ... / the generic slog.Numeric), the others with NewAttr / Any
func typedAttr(key string, v GVal) slog.Attr {
	if len(key)%2 == 0 {
		switch v.Kind {
		case "string":
			return slog.String(key, v.S)
		case "bool":
			return slog.Bool(key, v.B)
		case "int":
			return slog.Int(key, int(v.I))
		case "int8":
			return slog.Int8(key, int8(v.I))
		case "int16":
			return slog.Int16(key, int16(v.I))
		case "int32":
			return slog.Int32(key, int32(v.I))
		case "int64":
			return slog.Int64(key, v.I)
		case "uint":
			return slog.Uint(key, uint(v.U))
		case "uint8":
			return slog.Uint8(key, uint8(v.U))
		case "uint16":
			return slog.Uint16(key, uint16(v.U))
		case "uint32":
			return slog.Uint32(key, uint32(v.U))
		case "uint64":
			return slog.Uint64(key, v.U)
		case "float32":
			return slog.Float32(key, float32(v.F))
		case "float64":
			return slog.Float64(key, v.F)
		case "complex64":
			return slog.Complex64(key, complex64(complex(v.C[0], v.C[1])))
		case "complex128":
			return slog.Complex128(key, complex(v.C[0], v.C[1]))
		case "duration":
			return slog.Duration(key, time.Duration(v.I))
		case "time":
			return slog.Time(key, fixedTime.Add(time.Duration(v.I)))
		}
		return slog.Any(key, v.Go())
	}
	switch v.Kind { // the generic constructor for some numeric kinds
	case "int16":
		return slog.Numeric(key, int16(v.I))
	case "uint32":
		return slog.Numeric(key, uint32(v.U))
	case "float32":
		return slog.Numeric(key, float32(v.F))
	}
	return slog.NewAttr(key, v.Go())
}

// ---- generator ----
var leafKinds = []string{"nil", "string", "stringer", "tostring", "level", "error", "bool", "int", "int8", "int16", "int32", "int64",
	"uint", "uint8", "uint16", "uint32", "uint64", "float32", "float64", "complex64", "complex128", "duration", "time",
	"bytes", "struct", "map", "nilptr", "strs", "bools", "ints", "int64s", "uint64s", "uint16s", "float64s", "durs", "times", "int8s", "int16s", "int32s", "uints", "uint32s"}

var nastyRunes = []rune{0, 1, 7, 8, 9, 10, 11, 12, 13, 27, 31, ' ', '"', '\\', '/', '<', '>', '&', '=', 'a', 'Z', '~', 127, 0x80, 0xa0, 0xad,
	0xe9, 0x378, 0x2028, 0x2029, 0xd7ff, 0xe000, 0xfffd, 0xfffe, 0xffff, 0x10000, 0x1f600, 0x10ffff}

// genBytes: class 0 plain ASCII words, 1 mostly valid UTF-8 with nasties, 2 arbitrary bytes mixed in
func genText(r *Rng, class int, maxLen int) string {
	n := r.Intn(maxLen + 1)
	var b []byte
	for len(b) < n {
		switch class {
		case 0:
			b = append(b, "abcdefghijklmnopqrstuvwxyz_-.0123456789 "[r.Intn(40)])
		case 1:
			switch r.Intn(6) {
			case 0:
				b = utf8.AppendRune(b, nastyRunes[r.Intn(len(nastyRunes))])
			case 1:
				b = utf8.AppendRune(b, rune(0x80+r.Intn(0x3000)))
			default:
				b = append(b, byte(32+r.Intn(95)))
			}
		default:
			switch r.Intn(5) {
			case 0:
				b = append(b, byte(r.Intn(256)))
			case 1:
				b = utf8.AppendRune(b, nastyRunes[r.Intn(len(nastyRunes))])
			case 2:
				b = append(b, []byte{0xc3, 0x28, 0xe2, 0x82, 0xf0, 0x9f}[r.Intn(6)]) // truncated sequences
			default:
				b = append(b, byte(32+r.Intn(95)))
			}
		}
	}
	return string(b)
}

type EncProfile struct {
	KeyClass  int // 0: identifier-like keys, 1: any printable incl. quotes, 2: arbitrary bytes
	TextClass int // for string payloads
	MaxDepth  int
	MaxAttrs  int
	NoGroups  bool
	LegalKeys bool // logfmt-legal keys (non-empty, no space, '=', '"', control)
}

var reservedKeys = map[string]bool{"time": true, "level": true, "msg": true, "caller": true, "logger": true}

func genKey(r *Rng, p EncProfile) string {
	for {
		var k string
		switch {
		case p.KeyClass == 0 || r.Chance(60):
			k = []string{"a", "b", "c", "k1", "k2", "user", "id", "err", "x.y", "zz", "A", "m-n", "d", "e", "f"}[r.Intn(15)]
		default:
			k = genText(r, p.KeyClass, 6)
		}
		if reservedKeys[k] {
			continue
		}
		if p.LegalKeys {
			ok := k != ""
			for i := 0; i < len(k); i++ {
				if c := k[i]; c <= ' ' || c == '=' || c == '"' || c == 0x7f {
					ok = false
				}
			}
			if !utf8.ValidString(k) {
				ok = false
			}
			if !ok {
				continue
			}
		}
		return k
	}
}

func genLeaf(r *Rng, p EncProfile, kind string) GVal {
	v := GVal{Kind: kind}
	txt := func() string {
		c := p.TextClass
		if r.Chance(40) {
			c = 0
		}
		return genText(r, c, 12)
	}
	ints := []int64{0, 1, -1, 127, -128, 255, 32767, -32768, 1 << 31, -(1 << 31), 1<<63 - 1, -1 << 63, 42, 1234567890123}
	switch kind {
	case "string", "stringer", "tostring", "error", "bytes":
		v.S = txt()
	case "level":
		v.I = int64([]int{0, 3, 4, 8, 11, 42}[r.Intn(6)])
	case "bool":
		v.B = r.Bool()
	case "int", "int8", "int16", "int32", "int64", "duration", "time":
		v.I = ints[r.Intn(len(ints))]
		if kind == "time" {
			v.I = int64(r.Intn(1e9)) * int64(r.Intn(1000))
		}
	case "uint", "uint8", "uint16", "uint32", "uint64":
		v.U = []uint64{0, 1, 255, 65535, 1 << 32, 1<<64 - 1, 77}[r.Intn(7)]
	case "float32", "float64":
		v.F = []float64{0, 1, -1.5, 3.14159, 1e21, 1e-7, 2.5e10, -0.0, 123456.789}[r.Intn(9)]
	case "complex64", "complex128":
		v.C = [2]float64{[]float64{0, 1.5, -2, 1e10}[r.Intn(4)], []float64{0, 2, -3.25, 1e-3}[r.Intn(4)]}
	case "struct", "map":
		v.I = int64(r.Intn(100))
		v.S = genText(r, 0, 5)
	case "strs":
		for n := r.Intn(4); n > 0; n-- {
			v.Strs = append(v.Strs, txt())
		}
	case "bools":
		for n := r.Intn(4); n > 0; n-- {
			v.Bools = append(v.Bools, r.Bool())
		}
	case "int8s", "int16s", "int32s":
		for n := r.Intn(4); n > 0; n-- {
			v.Ints = append(v.Ints, []int64{0, 1, -1, 127, -128, 7, -100}[r.Intn(7)])
		}
	case "uints", "uint32s":
		for n := r.Intn(4); n > 0; n-- {
			v.Uints = append(v.Uints, []uint64{0, 1, 65535, 1<<32 - 1}[r.Intn(4)])
		}
	case "ints", "int64s", "durs", "times":
		for n := r.Intn(4); n > 0; n-- {
			x := ints[r.Intn(len(ints))]
			if kind == "ints" && (x > 1<<40 || x < -(1<<40)) {
				x = 7
			}
			if kind == "times" {
				x = int64(r.Intn(1e9))
			}
			v.Ints = append(v.Ints, x)
		}
	case "uint64s", "uint16s":
		for n := r.Intn(4); n > 0; n-- {
			v.Uints = append(v.Uints, []uint64{0, 1, 65535, 1<<64 - 1}[r.Intn(4)])
		}
	case "float64s":
		for n := r.Intn(4); n > 0; n-- {
			v.Fs = append(v.Fs, []float64{0, 1.25, -7, 1e21}[r.Intn(4)])
		}
	}
	return v
}

func genAttrs(r *Rng, p EncProfile, depth int) []GAttr {
	n := r.Intn(p.MaxAttrs + 1)
	var out []GAttr
	for i := 0; i < n; i++ {
		if r.Chance(4) {
			out = append(out, GAttr{Nil: true})
			continue
		}
		a := GAttr{Key: genKey(r, p)}
		if !p.NoGroups && depth < p.MaxDepth && r.Chance(18) {
			a.Val = GVal{Kind: "group", Items: genAttrs(r, p, depth+1), Ctor: r.Intn(2)}
		} else {
			a.Val = genLeaf(r, p, leafKinds[r.Intn(len(leafKinds))])
		}
		out = append(out, a)
	}
	return out
}

// ---- record + configuration ----
type EncCfg struct {
	Mode     string `json:"mode"` // json | logfmt | color
	Name     string `json:"name"`
	Level    int    `json:"level"`
	Caller   bool   `json:"caller"`
	NoPC     bool   `json:"no_pc,omitempty"` // direct-oracle corpus only: the caller flag is on but the record comes with no frame (WriteThru with pc 0, a skip count beyond the stack)
	TagWidth int    `json:"tag_width"`
	MinWidth int    `json:"min_width"`
	// a width outside 0..5 handed to SetLevelOutputWidth AFTER TagWidth was set: the setter ignores it (the tag keeps TagWidth)
	WidthAfter int `json:"width_after,omitempty"`
	// the logger is given, with SetTimeFormat, the very layout the flags select anyway: the timestamp text is the same, and
	// a time.Time ATTRIBUTE keeps its own fixed form (RFC3339Nano) whatever the layout of the timestamp is
	SameLayout bool `json:"same_layout,omitempty"`
	// a minimal width below 16 handed to SetMessageMinimalWidth AFTER MinWidth was set: ignored as well
	MinAfter int `json:"min_after,omitempty"`
}

type EncRec struct {
	Cfg   EncCfg  `json:"cfg"`
	Msg   string  `json:"msg"`
	Attrs []GAttr `json:"attrs"`
}

type callerInfo struct {
	PC   uintptr
	File string // after slog.Safety
	Line int
	Func string
	Raw  string // the file as the runtime reports it
}

//go:noinline
func pcHere() callerInfo {
	var pcs [1]uintptr
	runtime.Callers(2, pcs[:])
	fr, _ := runtime.CallersFrames(pcs[:]).Next()
	return callerInfo{pcs[0], slog.Safety(fr.File), fr.Line, fr.Function, fr.File}
}

var encCaller = pcHere()

const customLevel = 13 // registered without colours ("custom13")
const unregLevel = 42  // never registered: prints as L#42

// further registered levels of the encoder harness processes (Corr/Enc.v enc_registry registers the same)
const fgOnlyLevel = 14 // "fgonly14": a foreground colour and no background
const fgBgLevel = 15   // "fgbg15": both colours and its own short tags
const lateLevel = 16   // "late16": a foreground colour; C09 also registers it AFTER records of value 16 were formatted

var encCustomLevels = []int{customLevel, fgOnlyLevel, fgBgLevel, lateLevel}

// encRegister: the registrations alone (the registry must not hold them yet)
func encRegister() {
	_ = slog.RegisterLevel(slog.Level(customLevel), "custom13")
	_ = slog.RegisterLevel(slog.Level(fgOnlyLevel), "fgonly14", slog.RegWithColor(color.Color(35)))
	_ = slog.RegisterLevel(slog.Level(fgBgLevel), "fgbg15", slog.RegWithColor(color.Color(33), color.Color(44)),
		slog.RegWithShortTags([slog.MaxLengthShortTag]string{"", "F", "FB", "FGB", "FGBG", "FGBG5"}))
	_ = slog.RegisterLevel(slog.Level(lateLevel), "late16", slog.RegWithColor(color.Color(36)))
}

func encSetup(snap *slog.VerifRegistry) {
	resetProcess(snap)
	slog.AddFlags(slog.LnoInterrupt)
	encRegister()
}

// emit runs the real encoder once and returns the payload(s) written
func (rec EncRec) emit() [][]byte {
	c := rec.Cfg
	if c.Caller {
		slog.AddFlags(slog.Lcaller)
	} else {
		slog.RemoveFlags(slog.Lcaller)
	}
	slog.SetLevelOutputWidth(c.TagWidth)
	slog.SetMessageMinimalWidth(c.MinWidth)
	if c.WidthAfter != 0 {
		slog.SetLevelOutputWidth(c.WidthAfter)
	}
	if c.MinAfter != 0 {
		slog.SetMessageMinimalWidth(c.MinAfter)
	}
	var l *slog.Entry
	if c.Name == "" {
		l = slog.VerifEntryOf(slog.New())
	} else {
		l = slog.VerifEntryOf(slog.New(c.Name))
	}
	switch c.Mode {
	case "json":
		l.SetJSONMode(true)
	case "logfmt":
		l.SetColorMode(false)
	default:
		l.SetColorMode(true)
	}
	l.SetWriter(pool[1]).SetErrorWriter(pool[1]).SetUTCMode(true)
	if c.SameLayout {
		l.SetTimeFormat("15:04:05.000000Z07:00") // = tsText for fixedTime
	}
	rec.warmUp()
	historyPrelude(len(rec.Msg)*13 + len(rec.Attrs)*5 + rec.Cfg.Level*3 + rec.Cfg.MinWidth)
	events = nil
	pc := uintptr(0)
	if c.Caller && !c.NoPC {
		pc = encCaller.PC
	}
	func() {
		defer func() {
			if e := recover(); e != nil { // a panic while formatting: nothing was delivered (the oracles report the missing record)
				events = append(events, event{Kind: "panic", Payload: []byte(fmt.Sprint(e))})
			}
		}()
		l.WriteThru(nil, slog.Level(c.Level), fixedTime, pc, rec.Msg, attrsGo(rec.Attrs))
	}()
	var out [][]byte
	for _, ev := range events {
		if ev.Kind == "write" {
			out = append(out, ev.Payload)
		}
	}
	return out
}

// warmUp: two records out of three are formatted right after a record of ANOTHER logger in
// ANOTHER format (a coloured multi-line Trace record with a group and an error, a JSON or a logfmt
// one), on the same pooled context; which one is a function of the record itself, so that a
// replay of the case repeats it
func (rec EncRec) warmUp() {
	h := len(rec.Msg)*7 + len(rec.Attrs)*3 + rec.Cfg.Level + rec.Cfg.TagWidth
	if h%3 == 0 {
		return
	}
	var others []string
	for _, m := range []string{"json", "logfmt", "color"} {
		if m != rec.Cfg.Mode {
			others = append(others, m)
		}
	}
	mode := others[(h/3)%2]
	w := slog.VerifEntryOf(slog.New("warmup"))
	switch mode {
	case "json":
		w.SetJSONMode(true)
	case "logfmt":
		w.SetColorMode(false)
	default:
		w.SetColorMode(true)
	}
	w.SetWriter(c09Discard).SetErrorWriter(c09Discard)
	lvl := []slog.Level{slog.TraceLevel, slog.ErrorLevel, slog.OKLevel, slog.Level(fgBgLevel)}[h%4]
	w.WriteThru(nil, lvl, fixedTime, encCaller.PC, "warm-up\nsecond line\n",
		slog.Attrs{slog.Group("wg", slog.Int("a", 1), slog.Group("inner", slog.String("s", "x"))), slog.NewAttr("err", fmt.Errorf("warm-up error")), slog.String("z", "last")})
}

// withNastyPathMapping runs f while the directory of the caller's file is mapped to a replacement that holds a
// quote and backslashes (a known-path mapping registered earlier in the program): the caller
// field then carries that text and must be escaped like any other string
func withNastyPathMapping(f func()) {
	dir := filepath.Dir(encCaller.Raw)
	old, flags := encCaller, slog.GetFlags()
	slog.AddFlags(slog.Lprivacypath)
	if strings.HasPrefix(slog.Safety(encCaller.Raw), "~") {
		// another rule (the home directory) already rewrites the path of this tree: two
		// rules would compete and the iteration order of the table would decide which text is printed - not a
		// scenario with ONE expected text (seen when the tree was run from a directory below $HOME)
		slog.SetFlags(flags)
		f()
		return
	}
	slog.AddKnownPathMapping(dir, "C:\\Users\\\"dev\"\\src")
	encCaller.File = slog.Safety(encCaller.Raw)
	defer func() {
		slog.RemoveKnownPathMapping(dir)
		slog.SetFlags(flags)
		encCaller = old
	}()
	f()
}

const tsText = "13:14:15.123456Z" // fixedTime in the default layout (Ltime|Lmicroseconds), UTC mode

func (rec EncRec) Coq(observed []byte) string {
	c := rec.Cfg
	mode := map[string]string{"json": "ShJSON", "logfmt": "ShLogfmt", "color": "ShColor"}[c.Mode]
	caller := "None"
	if c.Caller {
		caller = fmt.Sprintf("(Some (%s, %s, %s))", cStr(encCaller.File), cZ(int64(encCaller.Line)), cStr(encCaller.Func))
	}
	return fmt.Sprintf("mkenc %s %s %s %s %s %s %s %s %s %s", mode, cStr(c.Name), cZ(int64(c.Level)), caller, cZ(int64(c.TagWidth)), cZ(int64(c.MinWidth)),
		cStr(tsText), cStr(rec.Msg), attrsCoq(rec.Attrs), cBytes(observed))
}

// runes whose strconv.IsPrint value the model needs (those occurring in the record)
func collectRunes(set map[rune]bool, s string) {
	for _, r := range s {
		if r >= 0x80 {
			set[r] = true
		}
	}
}
func (rec EncRec) runes(set map[rune]bool) {
	collectRunes(set, rec.Msg)
	collectRunes(set, rec.Cfg.Name)
	var walk func(as []GAttr)
	walk = func(as []GAttr) {
		for _, a := range as {
			collectRunes(set, a.Key)
			collectRunes(set, a.Val.S)
			for _, s := range a.Val.Strs {
				collectRunes(set, s)
			}
			if a.Val.Kind == "struct" || a.Val.Kind == "map" || a.Val.Kind == "nilptr" {
				collectRunes(set, fmt.Sprintf("{{%v}}", a.Val.Go()))
			}
			walk(a.Val.Items)
		}
	}
	walk(rec.Attrs)
}

func isprintPrelude(set map[rune]bool) string {
	var ks []int
	for r := range set {
		ks = append(ks, int(r))
	}
	sort.Ints(ks)
	var it []string
	for _, k := range ks {
		it = append(it, fmt.Sprintf("(%d, %v)", k, strconv.IsPrint(rune(k))))
	}
	return "Definition isprint_tbl : list (Z * bool) := " + cList(it) + ".\nDefinition isp (r : Z) : bool := match lookupZ isprint_tbl r with Some b => b | None => (32 <=? r) && (r <? 127) end."
}

// ---- expected trees (DESIGN appendix A) ----
// sortDedupe: ascending byte-wise key order, last of equal keys wins, nil attrs dropped
func sortDedupe(as []GAttr) []GAttr {
	var live []GAttr
	for _, a := range as {
		if !a.Nil {
			live = append(live, a)
		}
	}
	sort.SliceStable(live, func(i, j int) bool { return live[i].Key < live[j].Key })
	var out []GAttr
	for i, a := range live {
		if i+1 < len(live) && live[i+1].Key == a.Key {
			continue
		}
		out = append(out, a)
	}
	return out
}

func fixUTF8(s string) string { return string([]rune(s)) }

func kindsOf(as []GAttr, set map[string]bool) {
	for _, a := range as {
		if a.Nil {
			set["nil-attr"] = true
			continue
		}
		set[a.Val.Kind] = true
		kindsOf(a.Val.Items, set)
	}
}

func hasNasty(s string) bool {
	for i := 0; i < len(s); i++ {
		if c := s[i]; c < 0x20 || c == '"' || c == '\\' || c >= 0x7f {
			return true
		}
	}
	return false
}

func recNontrivial(rec EncRec) bool {
	if hasNasty(rec.Msg) {
		return true
	}
	ks := map[string]bool{}
	kindsOf(rec.Attrs, ks)
	if ks["group"] {
		return true
	}
	nasty := false
	var walk func(as []GAttr)
	walk = func(as []GAttr) {
		for _, a := range as {
			if hasNasty(a.Key) || hasNasty(a.Val.S) {
				nasty = true
			}
			for _, s := range a.Val.Strs {
				if hasNasty(s) {
					nasty = true
				}
			}
			walk(a.Val.Items)
		}
	}
	walk(rec.Attrs)
	return nasty
}

func genMsg(r *Rng, class int, multiline bool) string {
	m := genText(r, class, 30)
	if multiline && r.Chance(50) {
		m = strings.ReplaceAll(m, " ", "\n")
	}
	return m
}

// shrinkAttrs greedily deletes attributes (at any depth) while stillFails holds.
func shrinkRec(rec EncRec, stillFails func(EncRec) bool) EncRec {
	changed := true
	for changed {
		changed = false
		var try func(path []int, as []GAttr) []GAttr
		try = func(path []int, as []GAttr) []GAttr {
			for i := 0; i < len(as); i++ {
				cand := append(append([]GAttr{}, as[:i]...), as[i+1:]...)
				r2 := rec
				r2.Attrs = replaceAt(rec.Attrs, path, cand)
				if stillFails(r2) {
					rec = r2
					changed = true
					return cand
				}
			}
			for i := range as {
				if as[i].Val.Kind == "group" {
					sub := try(append(append([]int{}, path...), i), as[i].Val.Items)
					_ = sub
					if changed {
						return nil
					}
				}
			}
			return as
		}
		try(nil, rec.Attrs)
	}
	if len(rec.Msg) > 0 {
		r2 := rec
		r2.Msg = "m"
		if stillFails(r2) {
			rec = r2
		}
	}
	return rec
}

func replaceAt(root []GAttr, path []int, with []GAttr) []GAttr {
	if len(path) == 0 {
		return with
	}
	out := append([]GAttr{}, root...)
	g := out[path[0]]
	g.Val.Items = replaceAt(g.Val.Items, path[1:], with)
	out[path[0]] = g
	return out
}

func kindKey(rec EncRec) string {
	ks := map[string]bool{}
	kindsOf(rec.Attrs, ks)
	var l []string
	for k := range ks {
		l = append(l, k)
	}
	sort.Strings(l)
	if len(l) == 0 {
		return "none"
	}
	return strings.Join(l, "+")
}
