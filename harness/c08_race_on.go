//go:build race

package main

const c08RaceEnabled = true
