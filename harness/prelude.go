package main

// historyPrelude: what an unrelated part of the program may have done just before the case under
// test runs.  None of it may show in the case: other loggers' records in other formats (with a
// group, an error that carries its stack, several lines, colours with a background), a blank
// line, a temporary change of the flags and of the two width settings with its restore, a
// WithSkip child, lookups of unknown level names and tags of an unregistered level.  Which
// steps run is a function of h (derived from the case), so that a replay repeats them.  Every
// step leaves the process-wide settings as it found them.
//
// It is called by the drivers whose cases are otherwise independent of one another (C02, C04-C07,
// C13, C15, C16); C09 and C10 build their own histories.

import (
	"fmt"

	"github.com/hedzr/is"
	"github.com/hedzr/logg/slog"
	errorsv3 "gopkg.in/hedzr/errors.v3"
)

var preludeStackErr = errorsv3.New("prelude error with a stack")

func historyPrelude(h int) {
	if h < 0 {
		h = -h
	}
	side := func(mode string) *slog.Entry {
		e := slog.VerifEntryOf(slog.New("prelude-" + mode))
		switch mode {
		case "json":
			e.SetJSONMode(true)
		case "logfmt":
			e.SetColorMode(false)
		default:
			e.SetColorMode(true)
		}
		e.SetWriter(c09Discard).SetErrorWriter(c09Discard).SetLevel(slog.AlwaysLevel)
		return e
	}
	attrs := func() []any {
		return []any{slog.Group("pg", slog.Int("a", 1), slog.Group("inner", slog.String("s", "x"))), "err", preludeStackErr, "z", "last"}
	}
	if h&1 != 0 {
		side("json").Error("prelude json", attrs()...)
	}
	if h&2 != 0 {
		side("color").Trace("prelude colour\nsecond line\n", attrs()...)
	}
	if h&4 != 0 {
		side("logfmt").Println()
	}
	if h&8 != 0 {
		restore := slog.SaveFlagsAndMod(slog.Ldate|slog.Ltime|slog.Lmicroseconds|slog.Lcaller, slog.LlocalTime)
		side("logfmt").Warn("prelude under temporary flags", "k", 1)
		restore()
	}
	if h&16 != 0 {
		c := side("logfmt").WithSkip(2)
		c.SetWriter(c09Discard).SetErrorWriter(c09Discard)
		c.Info("prelude through a WithSkip child", "k", 1)
	}
	if h&32 != 0 {
		_, _ = slog.ParseLevel(fmt.Sprintf("no-such-level-%d", h%7))
		for w := 1; w <= 5; w++ {
			_ = slog.Level(unregLevel).ShortTag(w)
			_ = slog.Level(4).ShortTag(w)
		}
	}
	if h&128 != 0 {
		// another logger is switched to Debug and to Trace (which turns the process-wide debug / trace
		// mode on: put back afterwards - the case under test sets the mode it runs under itself)
		dbg, trc := is.DebugMode(), is.TraceMode()
		d := side("logfmt")
		d.SetLevel(slog.DebugLevel)
		d.Debug("prelude at debug level", "k", 1)
		d.SetLevel(slog.TraceLevel)
		is.SetDebugMode(dbg)
		is.SetTraceMode(trc)
	}
	if h&64 != 0 {
		tw, mw := slog.VerifWidths()
		slog.SetLevelOutputWidth(1 + (h>>7)%5)
		slog.SetMessageMinimalWidth(8 + (h>>7)%40)
		side("color").OK("prelude under other widths", "k", 1)
		side("color").LogAttrs(nil, slog.Level(unregLevel), "prelude unregistered level")
		slog.VerifSetWidths(tw, mw)
	}
}
