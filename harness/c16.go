package main

// C16: timestamps show the record's instant in the configured zone and layout.
//
// Besides Go's renderings of the candidates, every correspondence case carries the instant itself and its own
// zone (offset, abbreviation): the Coq model of Go's layout language renders it and must give the OBSERVED text
// byte for byte; the model's reader is compared with the instant (where the round-trip theorem applies) and with
// Go's own time.Parse.
//
// Every cell emits ONE record through Entry.WriteThru with an explicit instant on a fresh
// logger with recording writers, cuts the timestamp out of the record and checks it against
// the DIRECT ORACLE (the statement written out in Go, independent of the Coq model):
// expected zone, expected layout, text == instant.In(zone).Format(layout), framing, and
// time.Parse(layout, text) == the instant to the layout's precision.  The correspondence case
// hands the Coq model the inputs, Go's renderings of all (zone, layout) candidates and the
// observed bytes; the model selects.

import (
	"context"
	"fmt"
	"os"
	"strings"
	"time"

	"github.com/hedzr/logg/slog"
)

func init() { drivers["C16"] = runC16; replayers["C16"] = replayC16 }

// ---- instants ----
type c16Zone struct {
	Kind   string `json:"kind"`             // utc | fixed | named
	Name   string `json:"name,omitempty"`   // named: IANA name; fixed: the zone's name
	Offset int    `json:"offset,omitempty"` // fixed: seconds east of UTC
}

func (z c16Zone) loc() (*time.Location, error) {
	switch z.Kind {
	case "utc":
		return time.UTC, nil
	case "fixed":
		return time.FixedZone(z.Name, z.Offset), nil
	}
	return time.LoadLocation(z.Name)
}

type c16Instant struct {
	Sec  int64   `json:"sec"` // Unix seconds
	Nsec int     `json:"nsec"`
	Zone c16Zone `json:"zone"`
}

func (i c16Instant) time() (time.Time, error) {
	l, err := i.Zone.loc()
	if err != nil {
		return time.Time{}, err
	}
	return time.Unix(i.Sec, int64(i.Nsec)).In(l), nil
}

var c16FixedZones = []c16Zone{
	{Kind: "utc"},
	{Kind: "fixed", Name: "", Offset: 0},
	{Kind: "fixed", Name: "NPT", Offset: 5*3600 + 45*60},        // +05:45
	{Kind: "fixed", Name: "NST", Offset: -(3*3600 + 30*60)},     // -03:30
	{Kind: "fixed", Name: "LINT", Offset: 14 * 3600},            // +14:00
	{Kind: "fixed", Name: "AoE", Offset: -12 * 3600},            // -12:00
	{Kind: "fixed", Name: "CET", Offset: 3600},                  // +01:00
	{Kind: "fixed", Name: "LMT", Offset: 19*60 + 32},            // +00:19:32 (seconds offset)
	{Kind: "fixed", Name: "LMT", Offset: -(4*3600 + 56*60 + 2)}, // -04:56:02 (seconds offset)
	{Kind: "fixed", Name: "X", Offset: -1},                      // one second west
	{Kind: "fixed", Name: "IST", Offset: 5*3600 + 30*60},        // +05:30
	{Kind: "fixed", Name: "W30", Offset: -30 * 60},              // -00:30 (west of Greenwich by less than an hour)
	{Kind: "fixed", Name: "LMT", Offset: -(36*60 + 45)},         // -00:36:45 (Lisbon mean time)
	{Kind: "fixed", Name: "E30", Offset: 30 * 60},               // +00:30
}
var c16NamedZones = []string{"America/New_York", "Asia/Kathmandu", "Europe/Amsterdam", "Australia/Lord_Howe", "Pacific/Apia", "America/St_Johns"}

var c16Years = []int{0, 1, 99, 100, 999, 1000, 1582, 1883, 1900, 1936, 1969, 1970, 1999, 2000, 2024, 2038, 2262, 2263, 5000, 9998, 9999}
var c16Nanos = []int{0, 1, 999, 1000, 999999, 1000000, 100000000, 123456789, 500000000, 999999000, 999999999, 120000000, 7008009}

// genInstant: wall clock chosen in the instant's own zone; both the own-zone year and the
// UTC year stay within 0..9999 (the domain of the statement).
func c16GenInstant(rg *Rng, zones []c16Zone, i int) c16Instant {
	for {
		z := zones[i%len(zones)]
		if i >= len(zones) {
			z = zones[rg.Intn(len(zones))]
		}
		loc, err := z.loc()
		if err != nil {
			i++
			continue
		}
		y := c16Years[rg.Intn(len(c16Years))]
		if rg.Chance(40) {
			y = rg.Intn(10000)
		}
		ns := c16Nanos[rg.Intn(len(c16Nanos))]
		if rg.Chance(40) {
			ns = rg.Intn(1000000000)
		}
		mon, day, hh, mm, ss := 1+rg.Intn(12), 1+rg.Intn(28), rg.Intn(24), rg.Intn(60), rg.Intn(60)
		switch rg.Intn(8) {
		case 0:
			mon, day, hh, mm, ss = 12, 31, 23, 59, 59
		case 1:
			mon, day, hh, mm, ss = 1, 1, 0, 0, 0
		case 2:
			mon, day = 2, 29 // normalised by time.Date in non-leap years
		case 3:
			hh = 12 * rg.Intn(2) // 12 AM / 12 PM for Kitchen
		}
		t := time.Date(y, time.Month(mon), day, hh, mm, ss, ns, loc)
		if t.Year() < 0 || t.Year() > 9999 || t.UTC().Year() < 0 || t.UTC().Year() > 9999 {
			continue
		}
		return c16Instant{Sec: t.Unix(), Nsec: t.Nanosecond(), Zone: z}
	}
}

// instants at the edges of the calendar arithmetic: first and last day of the range, both sides of the
// epoch, leap days (also of year 0 and 2000), the days around the missing leap days of 1900 and 2100, every
// end of month of a leap and a non-leap year, with boundary sub-second parts; each in one of the zones
func c16BoundaryInstants(rg *Rng, zones []c16Zone) []c16Instant {
	type civ struct{ y, mo, d, h, mi, s, ns int }
	cs := []civ{
		{0, 1, 1, 0, 0, 0, 0}, {0, 2, 29, 23, 59, 59, 999999999}, {0, 3, 1, 0, 0, 0, 1}, {0, 12, 31, 23, 59, 59, 999999999},
		{1, 1, 1, 0, 0, 0, 0}, {400, 12, 31, 12, 0, 0, 500000000}, {1582, 10, 10, 1, 2, 3, 4},
		{1899, 12, 31, 23, 59, 59, 999999000}, {1900, 2, 28, 23, 59, 59, 999999999}, {1900, 3, 1, 0, 0, 0, 0},
		{1969, 12, 31, 23, 59, 59, 999999999}, {1970, 1, 1, 0, 0, 0, 0}, {1970, 1, 1, 0, 0, 0, 1}, {1969, 12, 31, 0, 0, 0, 0},
		{2000, 2, 29, 12, 0, 0, 0}, {2000, 3, 1, 0, 0, 0, 0}, {2000, 12, 31, 23, 59, 59, 100000000},
		{2024, 2, 29, 0, 0, 0, 120000000}, {2100, 2, 28, 23, 59, 59, 0}, {2100, 3, 1, 0, 0, 0, 999},
		{9999, 1, 1, 0, 0, 0, 0}, {9999, 12, 31, 23, 59, 59, 999999999}, {9996, 2, 29, 9, 9, 9, 9},
	}
	for _, y := range []int{2023, 2024} {
		for mo := 1; mo <= 12; mo++ {
			last := time.Date(y, time.Month(mo+1), 0, 0, 0, 0, 0, time.UTC).Day()
			cs = append(cs, civ{y, mo, last, 23, 59, 59, 999999999}, civ{y, mo, 1, 0, 0, 0, 0})
		}
	}
	var out []c16Instant
	for i, c := range cs {
		for k := 0; k < 2; k++ {
			z := zones[(2*i+k*7)%len(zones)]
			if k == 0 && i%3 == 0 {
				z = zones[0] // UTC
			}
			loc, err := z.loc()
			if err != nil {
				continue
			}
			t := time.Date(c.y, time.Month(c.mo), c.d, c.h, c.mi, c.s, c.ns, loc)
			if t.Year() < 0 || t.Year() > 9999 || t.UTC().Year() < 0 || t.UTC().Year() > 9999 {
				continue
			}
			out = append(out, c16Instant{Sec: t.Unix(), Nsec: t.Nanosecond(), Zone: z})
		}
	}
	// the zero time.Time itself (0001-01-01T00:00:00Z, IsZero() holds): an instant like any other
	out = append(out, c16Instant{Sec: time.Time{}.Unix(), Nsec: 0, Zone: zones[0]})
	_ = rg
	return out
}

// ---- layouts ----
// what a layout carries (written by hand for the layouts used here; the oracle needs it to
// say what "the instant to the layout's precision" is)
type c16LayInfo struct {
	Year, MonthDay, Hour, Min, Sec bool
	Frac                           int  // digits kept (9 = nanoseconds)
	Zone                           int  // 0 none, 1 to the minute (Z07:00, -0700), 2 to the second (Z07:00:00), 3 to the hour (Z07, -07)
	YY                             bool // two-digit year only: read back as 19yy from 69 on, else 20yy
	YDay                           bool // the date is carried by the day of the year (002, __2), not by month and day
	NoParse                        bool // carries a zone abbreviation (MST) or a form Go's own Parse does not read back: rendering checked, parse-back not asked
}

const c16LayoutZoneSec = "2006-01-02T15:04:05.000000000Z07:00:00"

var c16LayInfos = map[string]c16LayInfo{
	// the layouts the flags select
	"2006-01-02":                       {Year: true, MonthDay: true},
	"15:04:05Z07:00":                   {Hour: true, Min: true, Sec: true, Zone: 1},
	"15:04:05.000000Z07:00":            {Hour: true, Min: true, Sec: true, Frac: 6, Zone: 1},
	"2006-01-0215:04:05Z07:00":         {Year: true, MonthDay: true, Hour: true, Min: true, Sec: true, Zone: 1},
	"2006-01-02T15:04:05.000000Z07:00": {Year: true, MonthDay: true, Hour: true, Min: true, Sec: true, Frac: 6, Zone: 1},
	// custom
	time.RFC3339Nano:          {Year: true, MonthDay: true, Hour: true, Min: true, Sec: true, Frac: 9, Zone: 1},
	time.Kitchen:              {Hour: true, Min: true},
	"2006-01-02 15:04:05.000": {Year: true, MonthDay: true, Hour: true, Min: true, Sec: true, Frac: 3},
	time.RFC1123Z:             {Year: true, MonthDay: true, Hour: true, Min: true, Sec: true, Zone: 1},
	"15:04:05":                {Hour: true, Min: true, Sec: true},
	time.StampMicro:           {MonthDay: true, Hour: true, Min: true, Sec: true, Frac: 6},
	c16LayoutZoneSec:          {Year: true, MonthDay: true, Hour: true, Min: true, Sec: true, Frac: 9, Zone: 2},
	// element sweep (every element of Go's layout language at least once)
	time.RFC822Z:            {YY: true, MonthDay: true, Hour: true, Min: true, Zone: 1},
	time.Layout:             {YY: true, MonthDay: true, Hour: true, Min: true, Sec: true, Zone: 1},
	time.RFC850:             {NoParse: true},
	time.UnixDate:           {NoParse: true},
	time.RFC1123:            {NoParse: true},
	time.RFC822:             {NoParse: true},
	"2006-1-2 3:4:5 pm -07": {Year: true, MonthDay: true, Hour: true, Min: true, Sec: true, Zone: 3},
	"Monday, January 2 2006 15:04:05.000000000 Z0700": {Year: true, MonthDay: true, Hour: true, Min: true, Sec: true, Frac: 9, Zone: 1},
	"2006-01-02T15:04:05,000Z07":                      {Year: true, MonthDay: true, Hour: true, Min: true, Sec: true, Frac: 3, Zone: 3},
	"2006-002 15:04:05.999 -07:00:00":                 {Year: true, MonthDay: true, YDay: true, Hour: true, Min: true, Sec: true, Frac: 3, Zone: 2},
	"2006 __2 15:04:05.99 -070000":                    {Year: true, MonthDay: true, YDay: true, Hour: true, Min: true, Sec: true, Frac: 2, Zone: 2},
	time.StampMilli:                                   {MonthDay: true, Hour: true, Min: true, Sec: true, Frac: 3},
	"2006-01-02 15:04:05.999999 Z070000":              {Year: true, MonthDay: true, Hour: true, Min: true, Sec: true, Frac: 6, Zone: 2},
	"Mon Jan 2 15:04:05,9 -07:00 2006":                {Year: true, MonthDay: true, Hour: true, Min: true, Sec: true, Frac: 1, Zone: 1},
	"06/1/2 03:04PM":                                  {YY: true, MonthDay: true, Hour: true, Min: true},
	"_2006-01-02/15.04.05":                            {Year: true, MonthDay: true, Hour: true, Min: true, Sec: true},
	"Jane's Month: Mondays, 2006-01-02 15h04m05s":     {Year: true, MonthDay: true, Hour: true, Min: true, Sec: true},
	"05.0000000000 2006":                              {NoParse: true},
	"2006-01-02T15:04:05.999999999-07:00":             {Year: true, MonthDay: true, Hour: true, Min: true, Sec: true, Frac: 9, Zone: 1},
	"02/01/2006 15:04:05.00 -0700 MST":                {NoParse: true},
}

// layouts of the element sweep (beside the grid's)
var c16SweepLayouts = []string{time.RFC822Z, time.Layout, time.RFC850, time.UnixDate, time.RFC1123,
	"2006-1-2 3:4:5 pm -07", "Monday, January 2 2006 15:04:05.000000000 Z0700", "2006-01-02T15:04:05,000Z07",
	"2006-002 15:04:05.999 -07:00:00", "2006 __2 15:04:05.99 -070000", time.StampMilli, "2006-01-02 15:04:05.999999 Z070000",
	"Mon Jan 2 15:04:05,9 -07:00 2006", "06/1/2 03:04PM", "_2006-01-02/15.04.05", "Jane's Month: Mondays, 2006-01-02 15h04m05s",
	"05.0000000000 2006", "2006-01-02T15:04:05.999999999-07:00", "02/01/2006 15:04:05.00 -0700 MST"}

// custom layouts of the grid ("" = SetTimeFormat never called)
var c16Layouts = []string{"", time.RFC3339Nano, time.Kitchen, "2006-01-02 15:04:05.000", time.RFC1123Z, "15:04:05", time.StampMicro, c16LayoutZoneSec}

// the layout the date/time/microseconds flags select - the statement's table, written out
// (bit 1 = Ldate, 2 = Ltime, 4 = Lmicroseconds)
func c16LayoutByFlags(dt int) string {
	switch dt {
	case 1:
		return "2006-01-02"
	case 2:
		return "15:04:05Z07:00"
	case 3:
		return "2006-01-0215:04:05Z07:00"
	case 5, 7:
		return "2006-01-02T15:04:05.000000Z07:00"
	}
	return "15:04:05.000000Z07:00" // none, Lmicroseconds, Ltime|Lmicroseconds
}

var c16DefaultLayouts = []string{"2006-01-02", "15:04:05Z07:00", "15:04:05.000000Z07:00", "2006-01-0215:04:05Z07:00", "2006-01-02T15:04:05.000000Z07:00"}

// ---- a cell ----
type c16Cell struct {
	Inst    c16Instant `json:"instant"`
	Base    int64      `json:"base_flags"` // flags word without the date/time/microseconds/local-time bits
	DT      int        `json:"dt"`         // 0..7
	Local   bool       `json:"local"`
	UTC     *[]bool    `json:"utc,omitempty"`    // SetUTCMode(args...), nil = never called
	Layout  *[]string  `json:"layout,omitempty"` // SetTimeFormat(args...), nil = never called
	Shape   string     `json:"shape"`            // ShJSON | ShLogfmt | ShColor
	Form    string     `json:"form"`             // set | opt | with | child
	Level   int        `json:"level"`
	Record  string     `json:"record,omitempty"`
	Text    string     `json:"text,omitempty"`
	ExpZone string     `json:"exp_zone,omitempty"`
	ExpLay  string     `json:"exp_layout,omitempty"`
	Note    string     `json:"note,omitempty"`
}

var c16Shapes = []string{"ShJSON", "ShLogfmt", "ShColor"}
var c16UTCStates = []*[]bool{nil, {true}, {false}}

func c16NewLogger(c *c16Cell, n int) *slog.Entry {
	var opts []any
	opts = append(opts, fmt.Sprintf("c16-%d", n))
	if c.Form == "opt" {
		if c.UTC != nil {
			opts = append(opts, slog.WithUTCMode(*c.UTC...))
		}
		if c.Layout != nil {
			opts = append(opts, slog.WithTimeFormat(*c.Layout...))
		}
	}
	e := slog.VerifEntryOf(slog.New(opts...))
	switch c.Form {
	case "set":
		if n%2 == 0 { // every other logger has a history: what the cell sets was set to something else before
			if c.Layout != nil {
				e.SetTimeFormat(time.Kitchen)
			}
			if c.UTC != nil {
				e.SetUTCMode(n%4 == 0)
			}
		}
		if c.UTC != nil {
			e.SetUTCMode(*c.UTC...)
		}
		if c.Layout != nil {
			e.SetTimeFormat(*c.Layout...)
		}
	case "child":
		// the logger is the child of a parent that HAS chosen a UTC mode and a layout of its own: a child inherits neither,
		// it follows the flags until it is told itself
		e.SetUTCMode(n%2 == 0)
		e.SetTimeFormat(time.Kitchen)
		e = slog.VerifEntryOf(e.New(fmt.Sprintf("kid-%d", n)))
		if c.UTC != nil {
			e.SetUTCMode(*c.UTC...)
		}
		if c.Layout != nil {
			e.SetTimeFormat(*c.Layout...)
		}
	case "with":
		// a child inherits neither the UTC mode nor the layout: one With*, then Set* on the child
		if c.UTC != nil {
			e = e.WithUTCMode(*c.UTC...)
			if c.Layout != nil {
				e.SetTimeFormat(*c.Layout...)
			}
		} else if c.Layout != nil {
			e = e.WithTimeFormat(*c.Layout...)
		}
	}
	switch c.Shape {
	case "ShJSON":
		e.SetJSONMode(true)
	case "ShLogfmt":
		e.SetColorMode(false)
	case "ShColor":
		e.SetColorMode(true)
	}
	e.SetWriter(pool[1])
	e.SetErrorWriter(pool[1])
	return e
}

// cut the framed timestamp out of a record; ok=false when the framing of the statement is not there
func c16Cut(shape string, rec []byte) (framed, text string, ok bool) {
	s := string(rec)
	quoted := func(rest string, after byte) (string, string, bool) {
		if len(rest) < 2 || rest[0] != '"' {
			return "", "", false
		}
		j := strings.IndexByte(rest[1:], '"')
		if j < 0 || len(rest) < j+3 || rest[j+2] != after {
			return "", "", false
		}
		return rest[:j+2], rest[1 : j+1], true
	}
	switch shape {
	case "ShJSON":
		if !strings.HasPrefix(s, `{"time":`) {
			return "", "", false
		}
		return quoted(s[len(`{"time":`):], ',')
	case "ShLogfmt":
		if !strings.HasPrefix(s, "time=") {
			return "", "", false
		}
		return quoted(s[len("time="):], ' ')
	}
	if !strings.Contains(s, "\x1b[") {
		return "", "", false
	}
	p := slog.StripEscapes(s)
	j := strings.IndexByte(p, '|')
	if j < 0 || len(p) < j+2 || p[j+1] != ' ' || strings.ContainsAny(p[:j], "\"\n") {
		return "", "", false
	}
	return p[:j+1], p[:j], true
}

func c16HasZone(layout string) bool { return c16LayInfos[layout].Zone != 0 }

// the instant to the layout's precision, as wall-clock fields in zone z (+ offset to the layout's precision)
type c16Fields struct {
	Y, Mo, D, H, Mi, S, Ns int
	Off                    int
	HasOff                 bool
}

func c16Expect(w time.Time, li c16LayInfo) c16Fields {
	f := c16Fields{Y: 0, Mo: 1, D: 1}
	if li.Year {
		f.Y = w.Year()
	} else if li.YY {
		f.Y = 2000 + w.Year()%100
		if w.Year()%100 >= 69 {
			f.Y = 1900 + w.Year()%100
		}
	}
	if li.MonthDay {
		f.Mo, f.D = int(w.Month()), w.Day()
	}
	if li.Hour {
		f.H = w.Hour()
	}
	if li.Min {
		f.Mi = w.Minute()
	}
	if li.Sec {
		f.S = w.Second()
	}
	unit := 1000000000
	for i := 0; i < li.Frac; i++ {
		unit /= 10
	}
	f.Ns = w.Nanosecond() / unit * unit
	if li.Frac == 0 {
		f.Ns = 0
	}
	_, off := w.Zone()
	switch li.Zone {
	case 1:
		f.Off, f.HasOff = off/60*60, true
	case 2:
		f.Off, f.HasOff = off, true
	case 3:
		f.Off, f.HasOff = off/3600*3600, true
	}
	return f
}

func c16FieldsOf(p time.Time, li c16LayInfo) c16Fields {
	f := c16Fields{Y: p.Year(), Mo: int(p.Month()), D: p.Day(), H: p.Hour(), Mi: p.Minute(), S: p.Second(), Ns: p.Nanosecond()}
	if li.Zone != 0 {
		_, f.Off = p.Zone()
		f.HasOff = true
	}
	return f
}

// statement: SetUTCMode() and SetUTCMode(..., true) = UTC mode; SetUTCMode(..., false) = local mode
func c16UTCState(args *[]bool) int {
	if args == nil {
		return 0
	}
	st := 2
	for _, b := range *args {
		if b {
			st = 2
		} else {
			st = 1
		}
	}
	return st
}

// statement: the layout set is the last non-empty argument, RFC3339Nano when there is none
func c16LayoutSet(args *[]string) string {
	if args == nil {
		return ""
	}
	l := time.RFC3339Nano
	for _, a := range *args {
		if a != "" {
			l = a
		}
	}
	return l
}

var c16Debug = os.Getenv("VERIF_C16_DEBUG") != ""

type c16Ctx struct {
	snap    *slog.VerifRegistry
	n       int
	layName map[string]string // layout -> prelude name
	toCoq   func() bool       // whether the next cell becomes a Coq case
}

func (x *c16Ctx) layRef(r *Run, l string) string {
	if n, ok := x.layName[l]; ok {
		return n
	}
	n := fmt.Sprintf("ly%d", len(x.layName))
	x.layName[l] = n
	r.Prelude(fmt.Sprintf("Definition %s : bytes := %s.", n, cStr(l)))
	return n
}

func c16One(r *Run, x *c16Ctx, c c16Cell, kind string) {
	inst, err := c.Inst.time()
	if err != nil {
		r.Dist["skipped:zone-unavailable"]++
		return
	}
	x.n++
	if x.n%500 == 0 {
		resetProcess(x.snap)
	}
	// package flags for this record (restored by the caller through resetProcess)
	slog.SetFlags(slog.Flags(c.Base) | slog.LnoInterrupt)
	slog.RemoveFlags(slog.Ldatetimeflags, slog.LlocalTime)
	var add []slog.Flags
	if c.DT&1 != 0 {
		add = append(add, slog.Ldate)
	}
	if c.DT&2 != 0 {
		add = append(add, slog.Ltime)
	}
	if c.DT&4 != 0 {
		add = append(add, slog.Lmicroseconds)
	}
	if c.Local {
		add = append(add, slog.LlocalTime)
	}
	slog.AddFlags(add...)
	if x.n%3 == 0 { // every third record: a temporary change of the date/time flags and its restore come in between
		var restore func()
		if c.DT != 7 {
			restore = slog.SaveFlagsAndMod(slog.Ldate | slog.Ltime | slog.Lmicroseconds)
		} else {
			restore = slog.SaveFlagsAndMod(0, slog.Lmicroseconds)
		}
		restore()
	}
	historyPrelude(x.n)
	flagsNow := int64(slog.GetFlags())

	e := c16NewLogger(&c, x.n)
	events = nil
	e.WriteThru(context.Background(), slog.Level(c.Level), inst, 0, "msg", nil)
	var rec []byte
	nw := 0
	for _, ev := range events {
		if ev.Kind == "write" {
			nw++
			rec = ev.Payload
		}
	}
	events = nil
	c.Record = string(rec)
	if c16Debug && x.n <= 40 {
		fmt.Fprintf(os.Stderr, "C16 %s dt=%d local=%v utc=%v lay=%v: %q\n", c.Shape, c.DT, c.Local, c.UTC, c.Layout, rec)
	}

	// ---- direct oracle ----
	failed := false
	fail := func(key, desc string) {
		if !failed {
			failed = true
			c.Note = desc
			r.Fail(key, desc, c)
		}
	}
	st := c16UTCState(c.UTC)
	utcExpected := st == 2 || (st == 0 && !c.Local)
	expLayout := c16LayoutSet(c.Layout)
	if expLayout == "" {
		expLayout = c16LayoutByFlags(c.DT)
	}
	expT := inst
	c.ExpZone = "own"
	if utcExpected {
		expT, c.ExpZone = inst.UTC(), "UTC"
	}
	c.ExpLay = expLayout
	other := inst.UTC()
	if utcExpected {
		other = inst
	}
	want := expT.Format(expLayout)
	framed, text, cut := "", "", false
	if nw != 1 {
		fail("C16/framing", fmt.Sprintf("WriteThru produced %d writes instead of one record", nw))
	} else if framed, text, cut = c16Cut(c.Shape, rec); !cut {
		fail("C16/framing", fmt.Sprintf("%s record does not carry the timestamp in the stated framing (quoted in JSON/logfmt, followed by | in colour mode): %q", c.Shape, rec))
	}
	c.Text = text
	if cut && text != want {
		switch {
		case text == other.Format(expLayout):
			oz := "UTC"
			if utcExpected {
				oz = "the instant's own zone"
			}
			fail("C16/zone", fmt.Sprintf("timestamp %q is the instant in %s; the statement asks for %s (utc state %d, local-time flag %v): %q", text, oz, c.ExpZone, st, c.Local, want))
		default:
			got := "an unknown layout or another instant"
			for l := range c16LayInfos {
				if expT.Format(l) == text || other.Format(l) == text {
					got = fmt.Sprintf("layout %q", l)
				}
			}
			fail("C16/layout", fmt.Sprintf("timestamp %q is not the instant formatted with layout %q (%s); expected %q", text, expLayout, got, want))
		}
	}
	// Go's own Format writes an offset in (-60 s, 0) with a seconds zone verb as +00:00:-01, which Go's own
	// Parse rejects (time/format.go takes the sign from offset/60); nothing logg does is involved, so
	// for that combination only the parse-back clause is skipped (zone, layout, text and framing are checked).
	_, expOff := expT.Zone()
	goFormatDefect := c16LayInfos[expLayout].Zone == 2 && expOff < 0 && expOff > -60
	if goFormatDefect {
		r.Dist["parse-back=skipped(go-format-subminute-negative-offset)"]++
	}
	if li, known := c16LayInfos[expLayout]; !known {
		must(fmt.Errorf("C16: layout %q has no precision entry", expLayout))
	} else if li.NoParse {
		// a zone abbreviation does not determine an offset and Go's own Parse reads only some abbreviations:
		// zone, layout, text and framing are checked, the parse-back clause is not asked of these layouts
		r.Dist["parse-back=not-asked(abbreviation-or-unreadable-layout)"]++
		goFormatDefect = true
	}
	if cut && !failed && !goFormatDefect {
		li := c16LayInfos[expLayout]
		var parsed time.Time
		var perr error
		if li.Zone != 0 {
			parsed, perr = time.Parse(expLayout, text)
		} else {
			parsed, perr = time.ParseInLocation(expLayout, text, expT.Location())
		}
		if perr != nil {
			fail("C16/parse-back", fmt.Sprintf("time.Parse(%q, %q) fails: %v", expLayout, text, perr))
		} else {
			wantF, gotF := c16Expect(expT, li), c16FieldsOf(parsed, li)
			if wantF != gotF {
				fail("C16/parse-back", fmt.Sprintf("time.Parse(%q, %q) gives %+v, the instant to the layout's precision is %+v", expLayout, text, gotF, wantF))
			}
			// the strong form where the layout carries date, time and a zone that the text can express
			_, off := expT.Zone()
			if li.Year && li.MonthDay && li.Sec && li.Zone != 0 && (li.Zone == 2 || (li.Zone == 1 && off%60 == 0) || (li.Zone == 3 && off%3600 == 0)) {
				unit := time.Duration(1000000000)
				for i := 0; i < li.Frac; i++ {
					unit /= 10
				}
				trunc := time.Unix(c.Inst.Sec, int64(c.Inst.Nsec)/int64(unit)*int64(unit))
				if !parsed.Equal(trunc) {
					fail("C16/parse-back", fmt.Sprintf("time.Parse(%q, %q) = %v is not the instant %v truncated to %v", expLayout, text, parsed.UTC(), trunc.UTC(), unit))
				}
				r.Dist["parse-back=absolute-instant"]++
			} else {
				r.Dist["parse-back=fields"]++
			}
		}
	}

	// ---- bookkeeping / correspondence case ----
	_, off := inst.Zone()
	nontrivial := off != 0 && c.Inst.Nsec != 0
	canon := fmt.Sprintf("%d.%d|%v|%d|%v|%v|%v|%s", c.Inst.Sec, c.Inst.Nsec, c.Inst.Zone, flagsNow, c.UTC, c.Layout, c.Form, c.Shape)
	r.Dist["shape="+c.Shape]++
	r.Dist[fmt.Sprintf("utc-state=%d", st)]++
	r.Dist["zone-kind="+c.Inst.Zone.Kind]++
	r.Dist["expected-zone="+c.ExpZone]++
	r.Dist["kind="+kind]++
	if c.Layout == nil {
		r.Dist[fmt.Sprintf("layout=by-flags/%d", c.DT)]++
	} else {
		r.Dist["layout=custom"]++
	}
	if !x.toCoq() {
		r.Count(nontrivial, canon)
		return
	}
	// candidates: both zones x (every layout named in the arguments, Go's RFC3339Nano, the default layouts)
	lays := []string{}
	seen := map[string]bool{}
	addLay := func(l string) {
		if l != "" && !seen[l] {
			seen[l] = true
			lays = append(lays, l)
		}
	}
	if c.Layout != nil {
		for _, l := range *c.Layout {
			addLay(l)
		}
		addLay(time.RFC3339Nano)
	}
	for _, l := range c16DefaultLayouts {
		addLay(l)
	}
	var cands []string
	for _, l := range lays {
		cands = append(cands, fmt.Sprintf("(ZoneUTC, %s, %s)", x.layRef(r, l), cStr(inst.UTC().Format(l))))
		cands = append(cands, fmt.Sprintf("(ZoneOwn, %s, %s)", x.layRef(r, l), cStr(inst.Format(l))))
	}
	utcT := "None"
	if c.UTC != nil {
		utcT = cSome(cBools(*c.UTC))
	}
	layT := "None"
	if c.Layout != nil {
		var it []string
		for _, l := range *c.Layout {
			if l == "" {
				it = append(it, "[]")
			} else {
				it = append(it, x.layRef(r, l))
			}
		}
		layT = cSome(cList(it))
	}
	obs := framed
	if !cut {
		obs = "?" // never a framed timestamp: the model disagrees, the oracle has flagged it
	}
	// the instant and its own zone, for the model of Go's layout language; which route the model must
	// take; whether layout and zone are in the domain of the round-trip theorem (determined here from the
	// hand-written layout table, independently of the Coq predicate); what Go's own Parse reads
	ownName, ownOff := inst.Zone()
	inYears := func(t time.Time) bool { return t.Year() >= 0 && t.Year() <= 9999 }
	modelRoute := inYears(expT) && expOff > -360000 && expOff < 360000
	li := c16LayInfos[expLayout]
	roundtrip := modelRoute && !li.NoParse && !li.YDay && li.Year && li.MonthDay && li.Hour && li.Min && li.Sec && li.Zone != 0
	switch li.Zone {
	case 1:
		roundtrip = roundtrip && expOff%60 == 0
	case 2:
		roundtrip = roundtrip && !(expOff < 0 && expOff > -60)
	case 3:
		roundtrip = roundtrip && expOff%3600 == 0
	}
	goParse := "None"
	if cut && !li.NoParse {
		if p, err := time.Parse(expLayout, text); err == nil {
			_, poff := p.Zone()
			goParse = cSome(fmt.Sprintf("(%s, %s, %s)", cZ(p.Unix()), cZ(int64(p.Nanosecond())), cZ(int64(poff))))
			r.Dist["go-parse=read"]++
		} else {
			r.Dist["go-parse=refused"]++
		}
	}
	if modelRoute {
		r.Dist["route=model+candidate"]++
	} else {
		r.Dist["route=candidate-only"]++
	}
	if roundtrip {
		r.Dist["roundtrip-theorem-domain=in"]++
	} else {
		r.Dist["roundtrip-theorem-domain=out"]++
	}
	term := fmt.Sprintf("mk %s %s %s %s %s %s %s %s %s %s %s %s %s", utcT, layT, cZ(flagsNow), c.Shape, cList(cands), cStr(obs),
		cZ(c.Inst.Sec), cZ(int64(c.Inst.Nsec)), cZ(int64(ownOff)), cStr(ownName), cBool(modelRoute), cBool(roundtrip), goParse)
	r.AddCase(term, c, nontrivial, canon)
}

func c16Zones(r *Run) []c16Zone {
	zones := append([]c16Zone{}, c16FixedZones...)
	var named, missing []string
	for _, n := range c16NamedZones {
		if _, err := time.LoadLocation(n); err == nil {
			zones = append(zones, c16Zone{Kind: "named", Name: n})
			named = append(named, n)
		} else {
			missing = append(missing, n)
		}
	}
	r.Extra["named_zones_available"] = named
	if len(missing) > 0 {
		r.Extra["named_zones_unavailable_offline"] = missing
	}
	return zones
}

var c16Bases = []int64{
	int64(slog.LstdFlags &^ (slog.Ldatetimeflags | slog.LlocalTime)),
	0,
	int64(slog.Lattrs | slog.LattrsR | slog.Lcallerpackagename | slog.LsmartJSONMode),
}

func runC16(r *Run) {
	snap := slog.VerifSnapshot()
	defer resetProcess(snap)
	// the process zone is not UTC (this sandbox's is): an instant keeps ITS zone in local-time mode, the process zone never shows
	defer func(l *time.Location) { time.Local = l }(time.Local)
	time.Local = time.FixedZone("EST5", -5*3600)
	r.ShardSize = 250
	r.Coq("Require Import Verif.Model.Base Verif.Model.Decision Verif.Model.Mode Verif.Corr.C16.", "case", "ok")
	r.Rule = "cells = instant (own-zone and UTC year in 0..9999, any nanosecond part; zones: UTC, fixed offsets incl. +05:45, -03:30, +14:00, -12:00 and offsets with seconds, named IANA zones when the zoneinfo is available) x 8 date/time/microseconds combinations x local-time flag x 3 UTC states (never set, SetUTCMode(true), SetUTCMode(false)) x 8 layout settings (never set + 7 custom incl. RFC3339Nano, Kitchen, millisecond digits, RFC1123Z numeric zone, StampMicro, zone with seconds) x 3 formats, each one record through Entry.WriteThru with the instant; plus argument-list forms of SetUTCMode/SetTimeFormat (no argument, several, empty strings) through Set*, New(With*) and With* children; quick: the whole factor grid once with a different instant per cell, thorough: the whole grid for every instant; direct oracle = zone and layout per the statement, text == instant.In(zone).Format(layout), framing, time.Parse gives the instant's wall-clock fields (and zone offset) to the layout's precision and the absolute instant where the layout has date, time and zone; plus an element sweep (31 layouts covering every element of Go's layout language, on boundary instants - both ends of the year range, both sides of the epoch, leap days, missing leap days of 1900/2100, every end of month - and random ones); correspondence: the model of Go's layout language (Model/TimeFmt.v) renders the instant with the layout and in the zone the regenerated decisions select and must give the observed text byte for byte (route model+candidate; candidate-only where the instant is outside the model's domain), the specification-side reader must return the instant where the round-trip theorem's hypotheses hold and agree with time.Parse wherever that reads the text; layouts with a zone abbreviation are rendered and compared but parse-back is not asked of them; non-trivial = non-UTC zone with a sub-second part; distinct by (instant, zone, flags, utc arguments, layout arguments, form, format)"
	zones := c16Zones(r)
	nInst := r.N(48, 100)
	var insts []c16Instant
	for i := 0; i < nInst; i++ {
		insts = append(insts, c16GenInstant(r.R, zones, i))
	}
	cellNo := 0
	coqEvery := r.N(1, 11) // thorough: every 11th grid cell becomes a Coq case, the rest is oracle-only
	x := &c16Ctx{snap: snap, layName: map[string]string{}}
	x.toCoq = func() bool { return cellNo%coqEvery == 0 }
	forms := []string{"set", "opt", "with", "child"}
	grid := func(inst func() c16Instant) {
		for dt := 0; dt < 8; dt++ {
			for _, local := range []bool{false, true} {
				for _, u := range c16UTCStates {
					for _, l := range c16Layouts {
						for _, sh := range c16Shapes {
							c := c16Cell{Inst: inst(), Base: c16Bases[r.R.Intn(len(c16Bases))], DT: dt, Local: local, UTC: u, Shape: sh,
								Form: forms[r.R.Intn(4)], Level: int(slog.WarnLevel)}
							if l != "" {
								c.Layout = &[]string{l}
							}
							if r.R.Chance(30) {
								c.Level = int([]slog.Level{slog.InfoLevel, slog.ErrorLevel, slog.DebugLevel, slog.AlwaysLevel}[r.R.Intn(4)])
							}
							cellNo++
							c16One(r, x, c, "grid")
						}
					}
				}
			}
		}
	}
	if r.Thorough() {
		for i := range insts {
			in := insts[i]
			grid(func() c16Instant { return in })
		}
	} else {
		k := 0
		grid(func() c16Instant { k++; return insts[k%len(insts)] })
	}
	r.Exhaust = true
	r.Extra["factor_grid"] = "8 dt x 2 local x 3 utc states x 8 layout settings x 3 formats = 1152 cells, all covered (per instant in the thorough tier)"
	r.Extra["instants"] = len(insts)

	// element sweep: every element of Go's layout language, on boundary and random instants
	coqEvery = 1
	bound := c16BoundaryInstants(r.R, zones)
	r.Extra["boundary_instants"] = len(bound)
	sweep := append(append([]string{}, c16SweepLayouts...), c16Layouts[1:]...)
	sweep = append(sweep, c16DefaultLayouts...)
	nSweep := r.N(len(bound)+len(sweep)*6, len(bound)*len(sweep)+len(sweep)*60)
	for i := 0; i < nSweep; i++ {
		var in c16Instant
		var lay string
		switch {
		case r.Thorough() && i < len(bound)*len(sweep):
			in, lay = bound[i%len(bound)], sweep[i/len(bound)]
		case i < len(bound):
			in, lay = bound[i], sweep[r.R.Intn(len(sweep))]
		default:
			in, lay = insts[r.R.Intn(len(insts))], sweep[i%len(sweep)]
			if r.R.Chance(30) {
				in = bound[r.R.Intn(len(bound))]
			}
		}
		c := c16Cell{Inst: in, Base: c16Bases[r.R.Intn(len(c16Bases))], DT: r.R.Intn(8), Local: r.R.Bool(), UTC: c16UTCStates[r.R.Intn(3)],
			Layout: &[]string{lay}, Shape: c16Shapes[r.R.Intn(3)], Form: forms[r.R.Intn(4)], Level: int(slog.WarnLevel)}
		cellNo = 0
		c16One(r, x, c, "element-sweep")
	}
	r.Extra["sweep_layouts"] = sweep
	// zones at offset zero that are NOT UTC (GMT, WET, an unnamed +00:00): under UTC mode the record says UTC, otherwise
	// the zone's own name - visible in the layouts that print the zone's name
	k0 := 0
	for _, z := range []c16Zone{{Kind: "fixed", Name: "GMT", Offset: 0}, {Kind: "fixed", Name: "WET", Offset: 0}, {Kind: "fixed", Name: "", Offset: 0}, {Kind: "fixed", Name: "CET", Offset: 3600}} {
		for _, lay := range []string{time.RFC1123, time.UnixDate, time.RFC850, time.RFC822, "02/01/2006 15:04:05.00 -0700 MST", time.RFC3339Nano, ""} {
			for ui := range c16UTCStates {
				k0++
				in := c16Instant{Sec: 1700000000 + int64(k0)*86399, Nsec: 123456789, Zone: z}
				c := c16Cell{Inst: in, Base: c16Bases[k0%len(c16Bases)], DT: k0 % 8, Local: k0%2 == 0, UTC: c16UTCStates[ui],
					Layout: &[]string{lay}, Shape: c16Shapes[k0%3], Form: forms[k0/3%4], Level: int(slog.WarnLevel)}
				if lay == "" {
					c.Layout = nil
				}
				cellNo = 0
				c16One(r, x, c, "zero-offset-zones")
			}
		}
	}

	// argument-list forms
	coqEvery = 1
	utcForms := []*[]bool{{}, {true, false}, {false, true}, {false, false, true}, {true, true, false}}
	layForms := []*[]string{{}, {""}, {"", ""}, {time.Kitchen, ""}, {"", time.Kitchen}, {time.Kitchen, time.RFC1123Z}, {time.RFC1123Z, "", time.Kitchen, ""},
		{"2006-01-02 15:04:05.000", "15:04:05"}}
	for i := r.N(150, 3000); i > 0; i-- {
		c := c16Cell{Inst: insts[r.R.Intn(len(insts))], Base: c16Bases[r.R.Intn(len(c16Bases))], DT: r.R.Intn(8), Local: r.R.Bool(),
			Shape: c16Shapes[r.R.Intn(3)], Form: forms[r.R.Intn(4)], Level: int(slog.WarnLevel)}
		switch r.R.Intn(3) {
		case 0:
			c.UTC = utcForms[r.R.Intn(len(utcForms))]
			c.Layout = []*[]string{nil, {time.RFC3339Nano}, {"15:04:05"}}[r.R.Intn(3)]
		case 1:
			c.UTC = c16UTCStates[r.R.Intn(3)]
			c.Layout = layForms[r.R.Intn(len(layForms))]
		default:
			c.UTC = utcForms[r.R.Intn(len(utcForms))]
			c.Layout = layForms[r.R.Intn(len(layForms))]
		}
		cellNo = 0
		c16One(r, x, c, "argument-forms")
	}
	r.Extra["routes"] = map[string]int{"model+candidate": r.Dist["route=model+candidate"], "candidate-only": r.Dist["route=candidate-only"],
		"reader-vs-instant(round-trip-domain)": r.Dist["roundtrip-theorem-domain=in"], "reader-vs-time.Parse": r.Dist["go-parse=read"]}
}

func replayC16(r *Run, file string) {
	var c c16Cell
	loadReplay(file, &c)
	snap := slog.VerifSnapshot()
	r.Coq("Require Import Verif.Model.Base Verif.Model.Decision Verif.Model.Mode Verif.Corr.C16.", "case", "ok")
	x := &c16Ctx{snap: snap, layName: map[string]string{}, toCoq: func() bool { return true }}
	c.Record, c.Text, c.Note = "", "", ""
	c16One(r, x, c, "replay")
	resetProcess(snap)
	finishReplay(r)
}
