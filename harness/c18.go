package main

// C18: path hardening never lets a protected directory prefix through.
//
// Implementation under test: slog.Safety, slog.SafetyFiles, slog.VerifCheckpath (the
// unexported checkpath) and the caller file of an emitted record.  The direct oracle
// (c18Oracle) is written from the statement alone: component-wise "lies under",
// prefix replaced by the short form, unchanged-or-equivalent-relative outside all
// mappings, no panic; plus the table operations kept in lock-step with a plain Go map.

import (
	"bytes"
	"encoding/hex"
	"encoding/json"
	"fmt"
	"os"
	"path/filepath"
	"regexp"
	"runtime"
	"sort"
	"strings"

	"github.com/hedzr/logg/slog"
)

func init() { drivers["C18"] = runC18; replayers["C18"] = replayC18 }

type c18Op struct {
	Kind string `json:"kind"` // add remove reset rxadd rxremove rxreset
	K    string `json:"k,omitempty"`
	V    string `json:"v,omitempty"`
}

type c18Scenario struct {
	Priv    bool    `json:"privacy_flag"`
	Rx      bool    `json:"regexp_flag"`
	FlagAPI string  `json:"flag_api"` // addremove | set
	Ops     []c18Op `json:"ops"`
	Cwd     string  `json:"cwd"`
}

type c18Replay struct {
	Kind     string            `json:"kind,omitempty"`
	Sc       c18Scenario       `json:"scenario"`
	PathHex  string            `json:"path_hex"`
	PathQ    string            `json:"path_quoted"`
	Table    map[string]string `json:"table,omitempty"`
	Regexps  [][2]string       `json:"regexps,omitempty"`
	Observed []string          `json:"observed_quoted,omitempty"`
	Reps     int               `json:"repetitions,omitempty"`
}

const c18Builtin = `/Volumes/[^/]+/`
const c18Root = "/tmp/vc18" // real directories, so that the harness can chdir below a key

// ---- the statement's notions, independent of the model ----

// lies under: the directory itself or below it, on a component boundary
func c18Under(file, k string) bool {
	return k != "" && (file == k || strings.HasPrefix(file, k+"/"))
}

// out is a shorter relative path naming the same file as `file` seen from cwd
func c18EquivRel(cwd, file, out string) bool {
	if out == "" || filepath.IsAbs(out) || len(out) >= len(file) {
		return false
	}
	abs := file
	if !filepath.IsAbs(abs) {
		abs = filepath.Join(cwd, file)
	}
	return filepath.Clean(filepath.Join(cwd, out)) == filepath.Clean(abs)
}

// a table on which the statement can be judged: replacements are non-empty and relative, and no key can
// match what a replacement produced (keys are absolute, or relative with a first component that no
// replacement starts with - the mappings are applied one after the other to the rewritten path)
func c18WellFormed(table map[string]string) bool {
	first := func(p string) string {
		if i := strings.IndexByte(p, '/'); i >= 0 {
			return p[:i]
		}
		return p
	}
	heads := map[string]bool{}
	for _, v := range table {
		heads[first(v)] = true
	}
	for k, v := range table {
		if v == "" || strings.HasPrefix(v, "/") {
			return false
		}
		if !strings.HasPrefix(k, "/") && (k == "" || heads[first(k)]) {
			return false
		}
	}
	return true
}

// c18Oracle returns "" when `out` is acceptable for the statement, else (key, description).
func c18Oracle(priv, rxf bool, table map[string]string, rxs [][2]string, cwd, file, out string) (string, string) {
	if !priv {
		if out == file || c18EquivRel(cwd, file, out) {
			return "", ""
		}
		return "C18/flag-off-changed", fmt.Sprintf("privacy flag off: %q reported as %q (neither unchanged nor an equivalent shorter relative path)", file, out)
	}
	var under []string
	strPrefixNotUnder := ""
	for k := range table {
		if c18Under(file, k) {
			under = append(under, k)
		} else if k != "" && strings.HasPrefix(file, k) {
			strPrefixNotUnder = k
		}
	}
	sort.Strings(under)
	rxMatch := false
	if rxf {
		for _, e := range rxs {
			if regexp.MustCompile(e[0]).MatchString(file) {
				rxMatch = true
			}
		}
	}
	volRule := !rxf && strings.HasPrefix(file, "/Volumes/")
	wf := c18WellFormed(table)
	if len(under) > 0 && wf {
		// P1: never reported with that directory prefix
		for _, k := range under {
			if c18Under(out, k) {
				return "C18/prefix-leak", fmt.Sprintf("%q lies under the key %q -> %q but is reported as %q, still with that prefix", file, k, table[k], out)
			}
		}
		// the prefix is replaced by its short form
		if !rxMatch {
			okForm := false
			var allowed []string
			for _, k := range under {
				a := table[k] + file[len(k):]
				allowed = append(allowed, a)
				if out == a {
					okForm = true
				}
			}
			if !okForm {
				key := "C18/short-form"
				inner := false
				for _, k := range under {
					if strings.Count(file, k) > 1 {
						inner = true
					}
				}
				if strPrefixNotUnder != "" {
					key = "C18/component-boundary"
				} else if inner {
					key = "C18/replace-all-inner"
				}
				return key, fmt.Sprintf("%q lies under %q; reported as %q, expected the short form followed by the rest: one of %q", file, under, out, allowed)
			}
		}
		return "", ""
	}
	if len(under) == 0 && !rxMatch && !volRule {
		// P2: outside all mappings
		if out == file || c18EquivRel(cwd, file, out) {
			return "", ""
		}
		key := "C18/outside-changed"
		why := ""
		if strPrefixNotUnder != "" {
			key = "C18/component-boundary"
			why = fmt.Sprintf(" (the key %q is a string prefix, not a directory prefix)", strPrefixNotUnder)
		}
		return key, fmt.Sprintf("%q lies under no key and no regexp mapping matches it, but it is reported as %q%s", file, out, why)
	}
	return "", ""
}

// ---- running the implementation ----

type c18Exec struct {
	snap      *slog.VerifRegistry
	origCwd   string
	home      string
	resetDiff string   // set by apply: what slog.Reset() did to the mapping tables (should be nothing)
	warm      []string // paths asked for between the table operations (history)
}

func c18Call(f func() string) (out string, panicked any) {
	defer func() {
		if e := recover(); e != nil {
			panicked = e
		}
	}()
	return f(), nil
}

// apply restores the start state, sets flags, runs the ops through the public API while
// keeping the statement's table in lock-step.  Returns the expected table/regexps.
func (x *c18Exec) apply(sc c18Scenario) (init map[string]string, table map[string]string, rxs [][2]string) {
	slog.VerifRestore(x.snap)
	must(os.Chdir(sc.Cwd))
	x.resetDiff = ""
	if len(sc.Ops)%2 == 0 {
		// every other scenario: the package-level Reset (default level and flags back to the factory settings)
		// comes first; it must leave the two mapping tables as they are
		t0, r0 := c18CanonTable(slog.VerifKnownPaths()), fmt.Sprint(slog.VerifKnownPathRegexps())
		slog.Reset()
		if t1, r1 := c18CanonTable(slog.VerifKnownPaths()), fmt.Sprint(slog.VerifKnownPathRegexps()); t0 != t1 || r0 != r1 {
			x.resetDiff = fmt.Sprintf("slog.Reset() changed the mapping tables: known paths {%s} -> {%s}, regexps %s -> %s", t0, t1, r0, r1)
		}
	}
	if sc.FlagAPI == "set" {
		f := slog.GetFlags() &^ (slog.Lprivacypath | slog.Lprivacypathregexp)
		if sc.Priv {
			f |= slog.Lprivacypath
		}
		if sc.Rx {
			f |= slog.Lprivacypathregexp
		}
		slog.SetFlags(f)
	} else {
		if sc.Priv {
			slog.AddFlags(slog.Lprivacypath)
		} else {
			slog.RemoveFlags(slog.Lprivacypath)
		}
		if sc.Rx {
			slog.AddFlags(slog.Lprivacypathregexp)
		} else {
			slog.RemoveFlags(slog.Lprivacypathregexp)
		}
	}
	init = slog.VerifKnownPaths()
	table = map[string]string{}
	for k, v := range init {
		table[k] = v
	}
	rxs = slog.VerifKnownPathRegexps()
	// history: the paths of this scenario are asked for BEFORE every change of the tables as well (a program logs
	// while it is being configured); what is reported at the end depends on the tables and flags at the end only
	ask := func() {
		for _, p := range x.warm {
			func() {
				defer func() { _ = recover() }()
				_ = slog.Safety(p)
			}()
		}
	}
	for _, o := range sc.Ops {
		ask()
		switch o.Kind {
		case "add":
			slog.AddKnownPathMapping(o.K, o.V)
			table[o.K] = o.V
		case "remove":
			slog.RemoveKnownPathMapping(o.K)
			delete(table, o.K)
		case "reset":
			slog.ResetKnownPathMapping()
			table = map[string]string{}
		case "rxadd":
			slog.AddKnownPathRegexpMapping(o.K, o.V)
			rxs = append(rxs, [2]string{o.K, o.V})
		case "rxremove":
			slog.RemoveKnownPathRegexpMapping(o.K)
			for i, e := range rxs {
				if e[0] == o.K {
					rxs = append(append([][2]string{}, rxs[:i]...), rxs[i+1:]...)
					break
				}
			}
		case "rxreset":
			slog.ResetKnownPathRegexpMapping()
			rxs = nil
		}
	}
	return
}

func c18Keys(m map[string]string) []string {
	ks := make([]string, 0, len(m))
	for k := range m {
		ks = append(ks, k)
	}
	sort.Strings(ks)
	return ks
}

func c18Table(m map[string]string) string {
	var it []string
	for _, k := range c18Keys(m) {
		it = append(it, "("+cStr(k)+", "+cStr(m[k])+")")
	}
	return cList(it)
}

func c18CanonTable(m map[string]string) string {
	var sb strings.Builder
	for _, k := range c18Keys(m) {
		fmt.Fprintf(&sb, "%q=%q;", k, m[k])
	}
	return sb.String()
}

// one scenario: state set-up, table oracle, caller-field check, then every path
func (x *c18Exec) run(r *Run, sc c18Scenario, paths []string, reps int, kind string) {
	x.warm = paths
	if len(x.warm) > 8 {
		x.warm = x.warm[:8]
	}
	init, table, rxs := x.apply(sc)
	rep0 := c18Replay{Sc: sc, Table: table, Regexps: rxs}
	if x.resetDiff != "" {
		r.Fail("C18/reset-touched-tables", x.resetDiff, rep0)
	}
	// the table operations: the implementation holds what the statement's map holds
	got := slog.VerifKnownPaths()
	if c18CanonTable(got) != c18CanonTable(table) {
		r.Fail("C18/table", fmt.Sprintf("after %d add/remove/reset calls the known-path table is {%s}, expected {%s}", len(sc.Ops), c18CanonTable(got), c18CanonTable(table)), rep0)
		table = got // judge the paths against what is really registered
	}
	gotRx := slog.VerifKnownPathRegexps()
	if fmt.Sprint(gotRx) != fmt.Sprint(rxs) {
		r.Fail("C18/regexp-table", fmt.Sprintf("regexp mappings are %q, expected %q", gotRx, rxs), rep0)
		rxs = gotRx
	}
	priv, rxf := slog.IsAnyBitsSet(slog.Lprivacypath), slog.IsAnyBitsSet(slog.Lprivacypathregexp)
	if priv != sc.Priv || rxf != sc.Rx {
		r.Fail("C18/flags", fmt.Sprintf("flags after %s: privacy=%v regexp=%v, requested %v %v", sc.FlagAPI, priv, rxf, sc.Priv, sc.Rx), rep0)
	}
	cwd, _ := os.Getwd()
	nvol, onlyBuiltin := 0, true
	for _, e := range rxs {
		if e[0] == c18Builtin && e[1] == "~" {
			nvol++
		} else {
			onlyBuiltin = false
		}
	}
	wf := c18WellFormed(table)
	r.Dist[fmt.Sprintf("flags:privacy=%v,regexp=%v", priv, rxf)]++
	r.Dist[fmt.Sprintf("table_entries:%d", len(table))]++
	r.Dist[fmt.Sprintf("regexps:%d", len(rxs))]++
	if wf {
		r.Dist["table_wellformed"]++
	}

	x.callerField(r, sc, rep0)

	var ops []string
	for _, o := range sc.Ops {
		switch o.Kind {
		case "add":
			ops = append(ops, "TAdd "+cStr(o.K)+" "+cStr(o.V))
		case "remove":
			ops = append(ops, "TRemove "+cStr(o.K))
		case "reset":
			ops = append(ops, "TReset")
		}
	}

	for _, p := range paths {
		seen := map[string]bool{}
		var obs []string
		note := func(api, out string, pan any) {
			if pan != nil {
				r.Fail("C18/panic", fmt.Sprintf("%s(%q) panicked: %v", api, p, pan), c18Replay{Sc: sc, PathHex: hex.EncodeToString([]byte(p)), PathQ: fmt.Sprintf("%q", p), Table: table, Regexps: rxs})
				return
			}
			if !seen[out] {
				seen[out] = true
				obs = append(obs, out)
			}
		}
		for i := 0; i < reps; i++ {
			o1, p1 := c18Call(func() string { return slog.Safety(p) })
			note("Safety", o1, p1)
			o2, p2 := c18Call(func() string { return slog.VerifCheckpath(p) })
			note("checkpath", o2, p2)
			o3, p3 := c18Call(func() string {
				fs := slog.SafetyFiles([]string{"", p})
				if len(fs) != 2 {
					return fmt.Sprintf("<SafetyFiles returned %d results for 2 files>", len(fs))
				}
				return fs[1]
			})
			note("SafetyFiles", o3, p3)
		}
		sort.Strings(obs)
		rep := c18Replay{Sc: sc, PathHex: hex.EncodeToString([]byte(p)), PathQ: fmt.Sprintf("%q", p), Table: table, Regexps: rxs, Reps: reps}
		for _, o := range obs {
			rep.Observed = append(rep.Observed, fmt.Sprintf("%q", o))
		}
		nUnder := 0
		for k := range table {
			if c18Under(p, k) {
				nUnder++
			}
		}
		for _, o := range obs {
			if key, desc := c18Oracle(priv, rxf, table, rxs, cwd, p, o); key != "" {
				r.Fail(key, desc+fmt.Sprintf(" [table {%s} cwd %q]", c18CanonTable(table), cwd), rep)
				break
			}
		}
		if len(obs) > 1 {
			r.Dist["order_dependent_results"]++
		}
		r.Dist["path_class:"+c18Class(p, table)]++
		nontrivial := nUnder >= 1 && len(table) >= 2
		canon := c18CanonTable(table) + "|" + hex.EncodeToString([]byte(p))
		emptyKey := false
		for k := range table {
			if k == "" {
				emptyKey = true
			}
		}
		if onlyBuiltin && len(table) <= 5 && !emptyKey && len(obs) > 0 {
			rel, err := filepath.Rel(cwd, p)
			if err != nil {
				rel = ""
			}
			var ob []string
			for _, o := range obs {
				ob = append(ob, cStr(o))
			}
			term := fmt.Sprintf("Case %s %s %s %s %s %s %s %s %s %s", cBool(priv), cBool(rxf), c18Table(init), cList(ops),
				c18Table(table), cNat(nvol), cStr(cwd), cStr(p), cStr(rel), cList(ob))
			r.AddCase(term, rep, nontrivial, canon)
		} else {
			r.Count(nontrivial, canon)
			r.Dist["oracle_only"]++
		}
	}
	_ = kind
}

func c18Class(p string, table map[string]string) string {
	switch {
	case p == "":
		return "empty"
	case !filepath.IsAbs(p):
		return "relative"
	}
	under, strp, inner := false, false, false
	for k := range table {
		if c18Under(p, k) {
			under = true
			if strings.Count(p, k) > 1 {
				inner = true
			}
		} else if k != "" && strings.HasPrefix(p, k) {
			strp = true
		} else if k != "" && strings.Contains(p, k) {
			inner = true
		}
	}
	switch {
	case under && strp:
		return "under+sibling-prefix"
	case under && inner:
		return "under+inner"
	case under:
		return "under"
	case strp:
		return "sibling-prefix"
	case inner:
		return "key-inside"
	case strings.HasPrefix(p, "/Volumes/"):
		return "volumes"
	}
	return "outside"
}

type c18Rec struct{ buf bytes.Buffer }

func (w *c18Rec) Write(p []byte) (int, error) { return w.buf.Write(p) }

var c18FileRe = regexp.MustCompile(`caller\.file=("(?:[^"\\]|\\.)*"|\S+)`)

// the caller file of an emitted record is checkpath(runtime file): emit one record in
// logfmt mode and compare with Safety of this source file
func (x *c18Exec) callerField(r *Run, sc c18Scenario, rep c18Replay) {
	_, thisFile, _, _ := runtime.Caller(0)
	w := &c18Rec{}
	l := slog.New("c18").SetWriter(w).SetErrorWriter(w).SetColorMode(false).SetLevel(slog.InfoLevel)
	slog.AddFlags(slog.Lcaller)
	l.Info("probe")
	line := w.buf.String()
	m := c18FileRe.FindStringSubmatch(line)
	r.Evals++
	if m == nil {
		r.Fail("C18/caller-field", fmt.Sprintf("no caller.file in the logfmt record %q", line), rep)
		return
	}
	got := m[1]
	if strings.HasPrefix(got, `"`) {
		var s string
		if err := json.Unmarshal([]byte(got), &s); err == nil {
			got = s
		} else {
			got = strings.Trim(got, `"`)
		}
	}
	set := map[string]bool{}
	for i := 0; i < 60 && !set[got]; i++ {
		set[slog.Safety(thisFile)] = true
	}
	if !set[got] {
		r.Fail("C18/caller-field", fmt.Sprintf("caller.file of the record is %q, Safety(%q) gives %v", got, thisFile, set), rep)
	}
	r.Dist["caller_field_checked"]++
}

// ---- generators ----

func c18Pool(home string) (keys []string, repls []string) {
	keys = []string{"/a/b", "/a/b/c", "/a/bc", "/opt/x", c18Root + "/w", c18Root + "/w/sub", home, "github.com/acme/app", "vendor/x", "/srv/ci/$ws", "/mnt/c/$RECYCLE.BIN/${job}"} // two relative keys (module-relative file names of -trimpath builds)
	repls = []string{"~", ".", "$ab", "W", "~work", "$GOPATH/src"}
	return
}

func c18GenScenario(r *Run, x *c18Exec, thorough bool) c18Scenario {
	g := r.R
	sc := c18Scenario{Priv: !g.Chance(15), Rx: g.Bool(), FlagAPI: "addremove", Cwd: x.origCwd}
	if g.Bool() {
		sc.FlagAPI = "set"
	}
	switch g.Intn(6) {
	case 0:
		sc.Cwd = "/"
	case 1:
		sc.Cwd = c18Root + "/w/sub/deep"
	case 2:
		sc.Cwd = c18Root + "/wx"
	}
	keys, repls := c18Pool(x.home)
	n := g.Intn(7)
	if g.Chance(10) {
		n += 4
	}
	for i := 0; i < n; i++ {
		switch c := g.Intn(100); {
		case c < 55:
			k, v := keys[g.Intn(len(keys))], repls[g.Intn(len(repls))]
			if g.Chance(4) {
				k += "/" // a key with a trailing slash
			}
			if g.Chance(3) {
				v = "/s" // an absolute replacement: the table is then not well-formed (P1 not judged)
			}
			if g.Chance(2) {
				v = ""
			}
			sc.Ops = append(sc.Ops, c18Op{Kind: "add", K: k, V: v})
		case c < 75:
			k := keys[g.Intn(len(keys))]
			if g.Chance(25) {
				k = x.snapCwdKey()
			}
			sc.Ops = append(sc.Ops, c18Op{Kind: "remove", K: k})
		case c < 82:
			sc.Ops = append(sc.Ops, c18Op{Kind: "reset"})
		case c < 88:
			sc.Ops = append(sc.Ops, c18Op{Kind: "rxreset"})
		case c < 92:
			sc.Ops = append(sc.Ops, c18Op{Kind: "rxremove", K: []string{c18Builtin, c18Builtin, `^/srv/[a-z]+/`, `/(src|pkg|x)/`, `/node_modules/`}[g.Intn(5)]})
		case c < 94:
			sc.Ops = append(sc.Ops, c18Op{Kind: "rxadd", K: c18Builtin, V: "~"})
		case c < 96:
			sc.Ops = append(sc.Ops, c18Op{Kind: "rxadd", K: `^/srv/[a-z]+/`, V: "$$SRV/"})
		case c < 98:
			sc.Ops = append(sc.Ops, c18Op{Kind: "rxadd", K: `/(src|pkg|x)/`, V: "/_/"})
		default:
			sc.Ops = append(sc.Ops, c18Op{Kind: "rxadd", K: `/node_modules/`, V: "/nm/"})
		}
	}
	return sc
}

// the key init.go registered for the process's start directory
func (x *c18Exec) snapCwdKey() string { return x.origCwd }

func c18GenPaths(r *Run, x *c18Exec, sc c18Scenario, table map[string]string, n int) []string {
	g := r.R
	keys, _ := c18Pool(x.home)
	keys = append(keys, x.origCwd)
	comps := []string{"f.go", "src", "x", "a", "b", "bc", "c", "main_test.go", "..", ".", "go", "pkg", "node_modules"}
	tail := func() string {
		var sb strings.Builder
		for i, m := 0, 1+g.Intn(3); i < m; i++ {
			if i > 0 {
				sb.WriteByte('/')
			}
			sb.WriteString(comps[g.Intn(len(comps))])
		}
		return sb.String()
	}
	var out []string
	for len(out) < n {
		k := keys[g.Intn(len(keys))]
		if tk := c18Keys(table); len(tk) > 0 && g.Bool() {
			k = tk[g.Intn(len(tk))]
		}
		k2 := keys[g.Intn(len(keys))]
		var p string
		switch g.Intn(20) {
		case 0, 1, 2, 3:
			p = k + "/" + tail() // under
		case 4:
			p = k // the key itself
		case 5:
			p = k + "/" // with a trailing slash
		case 6, 7:
			p = k + "x/" + tail() // next to: the key is only a string prefix
		case 8:
			p = k + "-old" // next to, no further component
		case 9:
			p = "/q" + k + "/" + tail() // the key in inner position only
		case 10:
			p = k + "/" + tail() + k2 + "/" + tail() // under, with a key inside
		case 11:
			p = strings.TrimPrefix(k, "/") + "/" + tail() // relative look-alike
		case 12:
			p = []string{"", ".", "..", "./" + tail(), "../" + tail(), tail()}[g.Intn(6)]
		case 13:
			p = k + "/../" + tail() // dot-dot right after the key
		case 14:
			p = []string{"/" + k + "/" + tail(), k + "//" + tail(), k + "/" + tail() + "/"}[g.Intn(3)] // double slashes, trailing slash
		case 15:
			p = []string{k + "/\xff\xfe/" + tail(), "\xff" + k + "/" + tail(), k + "\xc3/" + tail(), "/\x80\xbf/" + tail()}[g.Intn(4)] // not UTF-8
		case 16:
			p = []string{"/Volumes/vol1/" + tail(), "/Volumes/vol1", "/Volumes//" + tail(), "/q/Volumes/v/" + tail(), "/Volumes/\xff/" + tail(), "/Volumes/v1/Volumes/v2/f"}[g.Intn(6)]
		case 17:
			p = sc.Cwd + "/" + tail() // under the current directory (a key only if the process started there)
		case 18:
			p = filepath.Dir(sc.Cwd) + "/" + tail() // next to the current directory: a short relative path exists
		default:
			p = "/" + tail() // somewhere else
			if g.Chance(20) {
				p = "/srv/www/" + tail()
			}
		}
		out = append(out, p)
	}
	return out
}

func runC18(r *Run) {
	r.Coq("Require Import Verif.Model.Base Verif.Model.Path Verif.Corr.C18.", "case", "ok")
	r.Rule = "one evaluation = one (flags, table, cwd, path) with all results observed over the repetitions of Safety, SafetyFiles and checkpath; " +
		"distinct by canonical (table sorted by key, path bytes); non-trivial = the path lies under at least one key and at least two keys are registered. " +
		"Direct oracle (statement only): flag on and path under a key of a well-formed table (absolute keys; non-empty, non-absolute replacements) => " +
		"not reported under that key, and (no regexp matching) reported as replacement+rest for one such key; path under no key, no regexp, " +
		"not the /Volumes/ rule => unchanged or a shorter relative path naming the same file; flag off => likewise; no panic; table = lock-step map."
	must(os.MkdirAll(c18Root+"/w/sub/deep", 0o755))
	must(os.MkdirAll(c18Root+"/wx", 0o755))
	orig, err := os.Getwd()
	must(err)
	home, _ := os.UserHomeDir()
	x := &c18Exec{snap: slog.VerifSnapshot(), origCwd: orig, home: home}
	defer func() { os.Chdir(orig); slog.VerifRestore(x.snap) }()
	reps := r.N(40, 50)
	r.Extra["repetitions_per_path"] = reps
	r.Extra["home"] = home
	r.Extra["start_cwd"] = orig
	r.Extra["start_table"] = slog.VerifKnownPaths()
	r.Extra["start_regexps"] = slog.VerifKnownPathRegexps()
	r.Extra["start_flags"] = fmt.Sprintf("privacy=%v regexp=%v", slog.IsAnyBitsSet(slog.Lprivacypath), slog.IsAnyBitsSet(slog.Lprivacypathregexp))

	// corpus: the witnesses of Props/C18.v and the defaults
	one := func(k, v string) []c18Op { return []c18Op{{Kind: "reset"}, {Kind: "add", K: k, V: v}} }
	corpus := []struct {
		sc    c18Scenario
		paths []string
	}{
		{c18Scenario{Priv: true, Rx: false, FlagAPI: "set", Ops: one("/root", "~"), Cwd: c18Root + "/w"}, []string{"/rootx/f", "/root/a/root/b", "/root/go/x.go", "/root", "/root/", "/roo/t"}},
		{c18Scenario{Priv: true, Rx: true, FlagAPI: "addremove", Cwd: orig}, []string{home + "/go/src/x.go", home + "x/f", home, orig + "/f.go", orig + "x/f.go", "/Volumes/vol1/src/x.go", "rel/x.go", ""}},
		{c18Scenario{Priv: true, Rx: false, FlagAPI: "addremove", Cwd: orig}, []string{home + "/go/src/x.go", "/Volumes/vol1/src/x.go", "/Volumes/vol1", "/Volumes/"}},
		{c18Scenario{Priv: false, Rx: true, FlagAPI: "set", Cwd: "/"}, []string{home + "/go/src/x.go", "/Volumes/vol1/src/x.go", "/a/b/f"}},
		{c18Scenario{Priv: true, Rx: false, FlagAPI: "set", Ops: []c18Op{{Kind: "reset"}, {Kind: "add", K: "/a/b", V: "X"}, {Kind: "add", K: "/a/b/c", V: "Y"}}, Cwd: c18Root + "/w"}, []string{"/a/b/c/f", "/a/b/f", "/a/bc/f"}},
		{c18Scenario{Priv: true, Rx: false, FlagAPI: "set", Ops: []c18Op{{Kind: "reset"}, {Kind: "add", K: "/aa", V: ""}, {Kind: "add", K: "/x", V: ""}}, Cwd: c18Root + "/w"}, []string{"/aa/x/a/xa/q", "/aa/aa/q"}},
	}
	// regexp mappings on paths that ALSO lie under a key: the prefix must stay hidden whatever the regexp rewrites
	corpus = append(corpus, struct {
		sc    c18Scenario
		paths []string
	}{c18Scenario{Priv: true, Rx: true, FlagAPI: "set", Cwd: c18Root + "/w",
		Ops: []c18Op{{Kind: "rxadd", K: `/pkg/mod/[^/]+/`, V: "/mod/"}, {Kind: "rxadd", K: `/node_modules/`, V: "/nm/"}, {Kind: "add", K: "/opt/x", V: "X"}}},
		[]string{home + "/go/pkg/mod/example.com/lib/a.go", home + "/p/node_modules/q/i.js", "/opt/x/pkg/mod/m/f.go", "/opt/x/node_modules/f.js", "/srv/pkg/mod/m/f.go", home + "/plain/f.go"}})
	// relative file names (module-relative in -trimpath builds) under a relative key, next to it, and matched by a regexp
	corpus = append(corpus, struct {
		sc    c18Scenario
		paths []string
	}{c18Scenario{Priv: true, Rx: true, FlagAPI: "set", Cwd: c18Root + "/w",
		Ops: []c18Op{{Kind: "add", K: "github.com/acme/app", V: "ACME"}, {Kind: "add", K: "vendor/x", V: "VX"}, {Kind: "rxadd", K: `/node_modules/`, V: "/nm/"}}},
		[]string{"github.com/acme/app/internal/db/a.go", "github.com/acme/apple/x.go", "github.com/acme/app", "vendor/x/y/z.go", "vendor/xy/z.go",
			"a/node_modules/b.js", "github.com/acme/app/node_modules/b.js", "other/rel.go"}})
	// a regexp rule that is withdrawn again (the paths are asked for while it is in force, see apply)
	corpus = append(corpus, struct {
		sc    c18Scenario
		paths []string
	}{c18Scenario{Priv: true, Rx: true, FlagAPI: "set", Cwd: c18Root + "/w",
		Ops: []c18Op{{Kind: "rxadd", K: `/node_modules/`, V: "/nm/"}, {Kind: "rxadd", K: `/pkg/mod/[^/]+/`, V: "/mod/"}, {Kind: "add", K: "/opt/x", V: "X"}, {Kind: "remove", K: "/opt/x"}, {Kind: "rxremove", K: `/node_modules/`}}},
		[]string{home + "/p/node_modules/q/i.js", "/srv/node_modules/f.js", "/srv/pkg/mod/m/f.go", "/opt/x/f.go", "/opt/x/node_modules/f.js"}})
	// directory names with a dollar sign are names, not variables
	corpus = append(corpus, struct {
		sc    c18Scenario
		paths []string
	}{c18Scenario{Priv: true, Rx: false, FlagAPI: "set", Cwd: c18Root + "/w",
		Ops: []c18Op{{Kind: "add", K: "/srv/ci/$ws", V: "WS"}, {Kind: "add", K: "/mnt/c/$RECYCLE.BIN/${job}", V: "BIN"}, {Kind: "add", K: "/opt/$HOME", V: "OH"}}},
		[]string{"/srv/ci/$ws/src/a.go", "/srv/ci/$wsx/a.go", "/mnt/c/$RECYCLE.BIN/${job}/f", "/opt/$HOME/x.go", "/opt" + home + "/x.go", "/srv/ci//src/a.go"}})
	for _, c := range corpus {
		x.run(r, c.sc, c.paths, reps, "corpus")
	}
	nSc, nPaths := r.N(70, 2500), r.N(12, 20)
	for i := 0; i < nSc; i++ {
		sc := c18GenScenario(r, x, r.Thorough())
		_, table, _ := x.apply(sc)
		paths := c18GenPaths(r, x, sc, table, nPaths)
		x.run(r, sc, paths, reps, "generated")
	}
	r.Extra["scenarios"] = nSc + len(corpus)
	c18EnvCheck(r)
}

func replayC18(r *Run, file string) {
	var in c18Replay
	loadReplay(file, &in)
	r.Coq("Require Import Verif.Model.Base Verif.Model.Path Verif.Corr.C18.", "case", "ok")
	if in.Kind == "env" { // a finding of the process-environment scenarios (c18_env.go): run them again
		c18EnvCheck(r)
		finishReplay(r)
		return
	}
	must(os.MkdirAll(c18Root+"/w/sub/deep", 0o755))
	must(os.MkdirAll(c18Root+"/wx", 0o755))
	orig, _ := os.Getwd()
	home, _ := os.UserHomeDir()
	x := &c18Exec{snap: slog.VerifSnapshot(), origCwd: orig, home: home}
	if _, err := os.Stat(in.Sc.Cwd); err != nil {
		in.Sc.Cwd = orig
	}
	var paths []string
	if b, err := hex.DecodeString(in.PathHex); err == nil && (in.PathHex != "" || in.PathQ == `""`) {
		paths = []string{string(b)}
	}
	x.run(r, in.Sc, paths, 200, "replay")
	os.Chdir(orig)
	for _, c := range r.replays {
		b, _ := json.Marshal(c)
		fmt.Printf("REPLAY: observed %s\n", b)
	}
	finishReplay(r)
}
