package main

// C01: level gating - one admission rule, identical at every entry point.

import (
	"context"
	"fmt"
	logslog "log/slog"
	"reflect"
	"regexp"
	"sort"

	"github.com/hedzr/is"
	"github.com/hedzr/is/states"
	"github.com/hedzr/logg/slog"
)

func init() { drivers["C01"] = runC01; replayers["C01"] = replayC01 }

const (
	sevParam   = -100001
	sevNever   = -100002
	sevUnknown = -100003
)

type entryPoint struct {
	Recv, Name string
	Sev        int    // fixed severity, -1 = parameter, -2 = never emits (Verbose), -3 = unknown (learned)
	Kind       string // verb | println | ctxverb | level | sloglevel | printf
}

var verbSev = map[string]int{"Panic": 0, "Fatal": 1, "Error": 2, "Warn": 3, "Info": 4, "Debug": 5, "Trace": 6,
	"Print": 8, "Println": 8, "OK": 9, "Success": 10, "Fail": 11, "Verbose": sevNever,
	"Infof": 4, "Warnf": 3, "Errorf": 2}

var ctxT = reflect.TypeOf((*context.Context)(nil)).Elem()
var errT = reflect.TypeOf((*error)(nil)).Elem()

func sevOfName(name string) int {
	base := name
	if len(base) > 7 && base[len(base)-7:] == "Context" {
		base = base[:len(base)-7]
	}
	if s, ok := verbSev[base]; ok {
		return s
	}
	return sevUnknown
}

// methods of *Entry whose signature is that of a log-issuing call
func entryMethods() []entryPoint {
	t := reflect.TypeOf(&slog.Entry{})
	var eps []entryPoint
	for i := 0; i < t.NumMethod(); i++ {
		m := t.Method(i)
		ft := m.Type // receiver is In(0)
		if !ft.IsVariadic() || ft.In(ft.NumIn()-1).Elem().Kind() != reflect.Interface {
			continue
		}
		res := ft.NumOut()
		if res > 1 || (res == 1 && ft.Out(0) != errT) {
			continue
		}
		in := []reflect.Type{}
		for j := 1; j < ft.NumIn()-1; j++ {
			in = append(in, ft.In(j))
		}
		kind := ""
		switch {
		case len(in) == 0 && res == 0:
			kind = "println"
		case len(in) == 1 && in[0].Kind() == reflect.String && res == 0:
			kind = "verb"
		case len(in) == 1 && in[0].Kind() == reflect.String && res == 1:
			kind = "printf"
		case len(in) == 2 && in[0] == ctxT && in[1].Kind() == reflect.String && res == 0:
			kind = "ctxverb"
		case len(in) == 3 && in[0] == ctxT && in[1] == reflect.TypeOf(slog.Level(0)) && in[2].Kind() == reflect.String:
			kind = "level"
		case len(in) == 3 && in[0] == ctxT && in[1] == reflect.TypeOf(logslog.Level(0)) && in[2].Kind() == reflect.String:
			kind = "sloglevel"
		default:
			continue
		}
		sev := sevOfName(m.Name)
		if kind == "level" || kind == "sloglevel" {
			sev = sevParam
		}
		eps = append(eps, entryPoint{"Entry", m.Name, sev, kind})
	}
	return eps
}

var pkgVerbs = map[string]func(string, ...any){"Panic": slog.Panic, "Fatal": slog.Fatal, "Error": slog.Error, "Warn": slog.Warn,
	"Info": slog.Info, "Debug": slog.Debug, "Trace": slog.Trace, "Print": slog.Print, "OK": slog.OK, "Success": slog.Success,
	"Fail": slog.Fail, "Verbose": slog.Verbose}
var pkgCtxVerbs = map[string]func(context.Context, string, ...any){"PanicContext": slog.PanicContext, "FatalContext": slog.FatalContext,
	"ErrorContext": slog.ErrorContext, "WarnContext": slog.WarnContext, "InfoContext": slog.InfoContext, "DebugContext": slog.DebugContext,
	"TraceContext": slog.TraceContext, "PrintContext": slog.PrintContext, "PrintlnContext": slog.PrintlnContext, "OKContext": slog.OKContext,
	"SuccessContext": slog.SuccessContext, "FailContext": slog.FailContext, "VerboseContext": slog.VerboseContext}

func pkgEntryPoints() []entryPoint {
	var eps []entryPoint
	for n := range pkgVerbs {
		eps = append(eps, entryPoint{"pkg", n, sevOfName(n), "verb"})
	}
	for n := range pkgCtxVerbs {
		eps = append(eps, entryPoint{"pkg", n, sevOfName(n), "ctxverb"})
	}
	eps = append(eps, entryPoint{"pkg", "Println", 8, "println"})
	sort.Slice(eps, func(i, j int) bool { return eps[i].Name < eps[j].Name })
	return eps
}

var slogLevelOf = map[int]logslog.Level{5: logslog.LevelDebug, 4: logslog.LevelInfo, 3: logslog.LevelWarn, 2: logslog.LevelError}

// call issues one record through ep on logger e (pkg entry points use the default logger)
func (ep entryPoint) call(e *slog.Entry, r int) {
	ctx := context.Background()
	if c01Bare {
		ep.callBare(e, r)
		return
	}
	if ep.Recv == "pkg" {
		switch ep.Kind {
		case "verb":
			pkgVerbs[ep.Name]("m", "k", 1)
		case "ctxverb":
			pkgCtxVerbs[ep.Name](ctx, "m", "k", 1)
		case "println":
			slog.Println("m", "k", 1)
		}
		return
	}
	m := reflect.ValueOf(e).MethodByName(ep.Name)
	switch ep.Kind {
	case "verb":
		m.Call([]reflect.Value{reflect.ValueOf("m"), reflect.ValueOf("k"), reflect.ValueOf(1)})
	case "println":
		m.Call([]reflect.Value{reflect.ValueOf("m"), reflect.ValueOf("k"), reflect.ValueOf(1)})
	case "printf":
		m.Call([]reflect.Value{reflect.ValueOf("m %d"), reflect.ValueOf(1)})
	case "ctxverb":
		m.Call([]reflect.Value{reflect.ValueOf(ctx), reflect.ValueOf("m"), reflect.ValueOf("k"), reflect.ValueOf(1)})
	case "level":
		m.Call([]reflect.Value{reflect.ValueOf(ctx), reflect.ValueOf(slog.Level(r)), reflect.ValueOf("m"), reflect.ValueOf("k"), reflect.ValueOf(1)})
	case "sloglevel":
		m.Call([]reflect.Value{reflect.ValueOf(ctx), reflect.ValueOf(slogLevelOf[r]), reflect.ValueOf("m"), reflect.ValueOf("k"), reflect.ValueOf(1)})
	}
}

// c01Bare: the same entry points called with the least a caller can pass - no key/value arguments, an empty
// message, Println with no argument at all (the "just an empty line" call)
var c01Bare bool

func (ep entryPoint) callBare(e *slog.Entry, r int) {
	ctx := context.Background()
	if ep.Recv == "pkg" {
		switch ep.Kind {
		case "verb":
			pkgVerbs[ep.Name]("")
		case "ctxverb":
			pkgCtxVerbs[ep.Name](ctx, "")
		case "println":
			slog.Println()
		}
		return
	}
	m := reflect.ValueOf(e).MethodByName(ep.Name)
	switch ep.Kind {
	case "verb", "printf":
		m.Call([]reflect.Value{reflect.ValueOf("")})
	case "println":
		m.Call(nil)
	case "ctxverb":
		m.Call([]reflect.Value{reflect.ValueOf(ctx), reflect.ValueOf("")})
	case "level":
		m.Call([]reflect.Value{reflect.ValueOf(ctx), reflect.ValueOf(slog.Level(r)), reflect.ValueOf("")})
	case "sloglevel":
		m.Call([]reflect.Value{reflect.ValueOf(ctx), reflect.ValueOf(slogLevelOf[r]), reflect.ValueOf("")})
	}
}

// the statement's rule, written out
func specAdmits(as map[int]int, dbg bool, L, r int) bool {
	if L == 7 || r == 7 {
		return false
	}
	if L == 8 || r == 8 {
		return true
	}
	if dbg && r == 5 {
		return true
	}
	if t, ok := as[r]; ok {
		r = t
	}
	return r <= L
}

func countWrites() int {
	n := 0
	for _, ev := range events {
		if ev.Kind == "write" {
			n++
		}
	}
	return n
}

type c01Cell struct {
	Kind  string      `json:"kind"`
	As    map[int]int `json:"treated_as"`
	Dbg   bool        `json:"debug"`
	L     int         `json:"logger_level"`
	Recv  string      `json:"recv"`
	Name  string      `json:"name"`
	R     int         `json:"severity"`
	Wrote int         `json:"writes"`
	Exp   bool        `json:"expected_admitted"`
}

var levelRe = regexp.MustCompile(`level="?([^" ]+)"?`)

// learnSeverity finds out which severity an unknown verb issues (Always logger, logfmt)
func learnSeverity(ep entryPoint) int {
	l := slog.VerifEntryOf(slog.New("learn")).SetLevel(slog.AlwaysLevel).SetColorMode(false)
	l.SetWriter(pool[1]).SetErrorWriter(pool[1])
	events = nil
	ep.call(l, 0)
	for _, ev := range events {
		if m := levelRe.FindSubmatch(ev.Payload); m != nil {
			if lv, err := slog.ParseLevel(string(m[1])); err == nil {
				return int(lv)
			}
		}
	}
	return sevNever
}

func asCoq(as map[int]int) string {
	var ks []int
	for k := range as {
		ks = append(ks, k)
	}
	sort.Ints(ks)
	var it []string
	for _, k := range ks {
		it = append(it, fmt.Sprintf("(%s, %s)", cZ(int64(k)), cZ(int64(as[k]))))
	}
	return cList(it)
}

// expectedAs is the treated-as relation per the statement: the built-in OK/Success -> Info,
// Fail -> Error, plus what the registrations of this scenario ASKED for (never read back from
// the implementation's table: a registration that stores something else must show up).
var expectedAs = map[int]int{9: 4, 10: 4, 11: 2}

func resetExpectedAs() { expectedAs = map[int]int{9: 4, 10: 4, 11: 2} }

func treatedAs() map[int]int {
	m := map[int]int{}
	for k, v := range expectedAs {
		m[k] = v
	}
	return m
}

// one grid cell on a prepared logger
func c01Cell1(r *Run, ep entryPoint, e *slog.Entry, dbg bool, L, sev int, kind string) {
	is.SetDebugMode(dbg)
	events = nil
	ep.call(e, sev)
	n := countWrites()
	as := treatedAs()
	exp := sev != sevNever && specAdmits(as, dbg, L, sev)
	cell := c01Cell{kind, as, dbg, L, ep.Recv, ep.Name, sev, n, exp}
	want := 0
	if exp {
		want = 1
	}
	if n != want {
		r.Fail(fmt.Sprintf("C01/gate:%s.%s", ep.Recv, ep.Name),
			fmt.Sprintf("%s.%s severity %d on a logger at level %d (debug=%v): %d write(s), the rule says %d", ep.Recv, ep.Name, sev, L, dbg, n, want), cell)
	}
	// the same cell, called with the least a caller can pass (direct oracle)
	c01Bare = true
	events = nil
	ep.call(e, sev)
	c01Bare = false
	if nb := countWrites(); nb != want {
		cell.Kind, cell.Wrote = kind+"/bare-call", nb
		r.Fail(fmt.Sprintf("C01/gate-bare-call:%s.%s", ep.Recv, ep.Name),
			fmt.Sprintf("%s.%s called with an empty message and no further argument (Println: no argument at all), severity %d on a logger at level %d (debug=%v): %d write(s), the rule says %d", ep.Recv, ep.Name, sev, L, dbg, nb, want), cell)
		cell.Kind, cell.Wrote = kind, n
	}
	r.Count(true, "bare-call "+ep.Recv+"."+ep.Name)
	param := sev
	if sev == sevNever {
		param = 0
	}
	term := fmt.Sprintf("Cell %s %s %s %s %s %s %s", asCoq(as), cBool(dbg), cZ(int64(L)), cStr(ep.Recv), cStr(ep.Name), cZ(int64(param)), cZ(int64(n)))
	forced := L == 7 || sev == 7 || L == 8 || sev == 8 || sev == sevNever
	r.AddCase(term, cell, !forced, term)
	r.Dist["ep="+ep.Recv+"."+ep.Kind]++
}

// c01Env: a state provider of the application's own; debug and trace mode live in it
type c01Env struct {
	states.CmdrMinimal
	dbg, trc bool
}

func (e *c01Env) GetDebugMode() bool  { return e.dbg }
func (e *c01Env) SetDebugMode(b bool) { e.dbg = b }
func (e *c01Env) GetTraceMode() bool  { return e.trc }
func (e *c01Env) SetTraceMode(b bool) { e.trc = b }

type regSample struct {
	vals  []int
	treat []int // -1: none
}

func genRegSample(rg *Rng) regSample {
	cands := []int{12, 13, 20, 99, -1, -7, 1 << 33, 255, 1000}
	var s regSample
	used := map[int]bool{}
	for len(s.vals) < 7 {
		v := cands[rg.Intn(len(cands))] + rg.Intn(3)
		if n := len(s.vals); n == 1 || n == 4 { // the levels treated as Info and as Trace have NEGATIVE values (below every built-in one)
			v = []int{-1, -3, -7, -100, -1 << 40}[rg.Intn(5)] - rg.Intn(2)
		}
		if used[v] || (v >= 0 && v < 12) {
			continue
		}
		used[v] = true
		s.vals = append(s.vals, v)
		switch len(s.treat) { // every sample has the boundary cases: treated as Panic (0), as Info, none, as Off/Always, as Trace
		case 0:
			s.treat = append(s.treat, 0)
		case 1:
			s.treat = append(s.treat, 4)
		case 2:
			s.treat = append(s.treat, -1)
		case 3:
			s.treat = append(s.treat, []int{7, 8}[rg.Intn(2)])
		case 4:
			s.treat = append(s.treat, 6)
		default:
			if rg.Bool() {
				s.treat = append(s.treat, []int{0, 2, 3, 4, 5, 6, 7, 8, 11}[rg.Intn(9)])
			} else {
				s.treat = append(s.treat, -1)
			}
		}
	}
	return s
}

func (s regSample) register() {
	for i, v := range s.vals {
		var opts []slog.RegOpt
		if s.treat[i] >= 0 {
			opts = append(opts, slog.RegWithTreatedAsLevel(slog.Level(s.treat[i])))
			expectedAs[v] = s.treat[i]
		}
		if err := slog.RegisterLevel(slog.Level(v), fmt.Sprintf("custom%d", i), opts...); err != nil {
			panic(err)
		}
	}
}

func runC01(r *Run) {
	snap := slog.VerifSnapshot()
	r.Coq("Require Import Verif.Model.Base Verif.Model.Level Verif.Model.Emit Verif.Corr.C01.", "case", "ok")
	r.Rule = "grid: logger level x severity x debug x every entry point (Entry methods found by reflection, package functions listed) under registry samples with random custom levels; plus random histories (SetLevel/WithLevel/RegisterLevel/SetDebugMode) followed by probes; non-trivial = decision not forced by Off/Always/Verbose; distinct by cell"
	resetExpectedAs()
	eps := append(entryMethods(), pkgEntryPoints()...)
	for i := range eps {
		if eps[i].Sev == sevUnknown {
			resetProcess(snap)
			slog.AddFlags(slog.LnoInterrupt)
			eps[i].Sev = learnSeverity(eps[i])
			r.Dist["learned-severity"]++
		}
	}
	r.Extra["entry_points"] = len(eps)
	nsamples := r.N(2, 8)
	origEnv := states.Env()
	defer states.UpdateEnvWith(origEnv)
	for si := 0; si < nsamples; si++ {
		resetProcess(snap)
		resetExpectedAs()
		slog.AddFlags(slog.LnoInterrupt)
		var sample regSample
		if si > 0 {
			sample = genRegSample(r.R)
			sample.register()
		}
		if si%2 == 1 {
			// the application installs its own provider of the debug/trace state (as hedzr/cmdr does at start-up):
			// is.SetDebugMode and the gate must both follow the new one
			states.UpdateEnvWith(&c01Env{CmdrMinimal: origEnv})
		} else {
			states.UpdateEnvWith(origEnv)
		}
		levels := []int{0, 1, 2, 3, 4, 5, 6, 7, 8, 9, 10, 11}
		levels = append(levels, sample.vals...)
		own := slog.VerifEntryOf(slog.New("c01"))
		own.SetWriter(pool[1]).SetErrorWriter(pool[1])
		if si%2 == 1 {
			// ... and its own default logger: a sub-logger (an *Entry, where the factory default is the package's
			// own wrapper type); the package-level functions take another branch for it
			slog.SetDefault(slog.New("c01-parent").New("c01-default-entry"))
		}
		def := slog.VerifEntryOf(slog.Default())
		def.SetWriter(pool[2]).SetErrorWriter(pool[2])
		for _, L := range levels {
			for _, dbg := range []bool{false, true} {
				// SetLevel has a process-wide side effect on debug mode; the cell sets the mode explicitly afterwards
				own.SetLevel(slog.Level(L))
				// the default logger's level is set through the logger and through the package-level twins in turn
				switch (L%3 + 3) % 3 {
				case 0:
					// the package-level default is set to something else first: the package functions follow the
					// default LOGGER's level, whatever the package variable holds (Off, Always, Panic, Trace in turn)
					slog.SetLevel([]slog.Level{slog.OffLevel, slog.AlwaysLevel, slog.PanicLevel, slog.TraceLevel}[((L/3)%4+4)%4])
					def.SetLevel(slog.Level(L))
				case 1:
					slog.SetLevel(slog.Level(L))
				default:
					slog.ResetLevel()
					_ = slog.SaveLevelAndSet(slog.Level(L)) // (the restore function is not called: the level stays)
				}
				for _, ep := range eps {
					e := own
					if ep.Recv == "pkg" {
						e = def
					}
					switch {
					case ep.Sev == sevParam && ep.Kind == "level":
						for _, sv := range levels {
							c01Cell1(r, ep, e, dbg, L, sv, "grid")
						}
					case ep.Sev == sevParam && ep.Kind == "sloglevel":
						for _, sv := range []int{2, 3, 4, 5} {
							c01Cell1(r, ep, e, dbg, L, sv, "grid")
						}
					default:
						c01Cell1(r, ep, e, dbg, L, ep.Sev, "grid")
					}
				}
			}
		}
	}
	r.Exhaust = true
	r.Extra["exhaustive_space"] = "per registry sample: all (logger level, debug, entry point, severity it can carry) cells over built-in and registered levels"
	// random histories
	for h := r.N(150, 3000); h > 0; h-- {
		c01History(r, snap, eps)
	}
	resetProcess(snap)
}

type gop struct {
	Kind  string `json:"kind"`
	I     int    `json:"i,omitempty"`
	L     int    `json:"l,omitempty"`
	V     int    `json:"v,omitempty"`
	Treat int    `json:"treat"`
	B     bool   `json:"b,omitempty"`
}

type c01Hist struct {
	Kind   string    `json:"kind"`
	Lvl0   int       `json:"lvl0"`
	Ops    []gop     `json:"ops"`
	Probes []c01Cell `json:"probes"`
}

func c01History(r *Run, snap *slog.VerifRegistry, eps []entryPoint) {
	resetProcess(snap)
	resetExpectedAs()
	histUsed := map[int]bool{}
	for l := 0; l < 12; l++ {
		histUsed[l] = true
	}
	histTitles := map[string]bool{}
	slog.AddFlags(slog.LnoInterrupt)
	rg := r.R
	root := slog.VerifEntryOf(slog.New("h"))
	root.SetWriter(pool[1]).SetErrorWriter(pool[1])
	loggers := []*slog.Entry{root}
	lvl0 := int(root.Level())
	var ops []gop
	var opsCoq []string
	nreg := 0
	for n := 1 + rg.Intn(12); n > 0; n-- {
		switch c := rg.Intn(10); {
		case c < 4:
			i, l := rg.Intn(len(loggers)), rg.Intn(12)
			loggers[i].SetLevel(slog.Level(l))
			ops = append(ops, gop{Kind: "GSetLevel", I: i, L: l})
			opsCoq = append(opsCoq, fmt.Sprintf("GSetLevel %s %s", cNat(i), cZ(int64(l))))
		case c < 6:
			i, l := rg.Intn(len(loggers)), rg.Intn(12)
			var ch *slog.Entry
			if rg.Bool() {
				ch = loggers[i].WithLevel(slog.Level(l))
			} else {
				ch = loggers[i].New(slog.WithLevel(slog.Level(l)))
			}
			ch.SetWriter(pool[1]).SetErrorWriter(pool[1])
			loggers = append(loggers, ch)
			ops = append(ops, gop{Kind: "GWithLevel", I: i, L: l})
			opsCoq = append(opsCoq, fmt.Sprintf("GWithLevel %s %s", cNat(i), cZ(int64(l))))
		case c < 9:
			v := []int{12, 13, 14, -2, 4, 9, 77}[rg.Intn(7)] // some collide with built-ins or earlier registrations
			treat := -1
			var opts []slog.RegOpt
			if rg.Bool() {
				treat = []int{0, 2, 3, 4, 5, 6}[rg.Intn(6)]
				opts = append(opts, slog.RegWithTreatedAsLevel(slog.Level(treat)))
			}
			title := fmt.Sprintf("h%d", nreg%3) // titles collide on purpose
			nreg++
			_ = slog.RegisterLevel(slog.Level(v), title, opts...)
			if !histUsed[v] && !histTitles[title] { // the registration must have been accepted
				histUsed[v], histTitles[title] = true, true
				if treat >= 0 {
					expectedAs[v] = treat
				}
			}
			ops = append(ops, gop{Kind: "GRegister", V: v, Treat: treat})
			tr := "lv_max"
			if treat >= 0 {
				tr = cZ(int64(treat))
			}
			opsCoq = append(opsCoq, fmt.Sprintf("GRegister %s %s (treat_opt %s)", cZ(int64(v)), cStr(title), tr))
		default:
			b := rg.Bool()
			is.SetDebugMode(b)
			ops = append(ops, gop{Kind: "GSetDebug", B: b, Treat: -1})
			opsCoq = append(opsCoq, fmt.Sprintf("GSetDebug %s", cBool(b)))
		}
	}
	// probes: every logger, a few entry points each (no further state change: probing does not call SetLevel)
	dbg := is.DebugMode()
	as := treatedAs()
	h := c01Hist{Kind: "history", Lvl0: lvl0, Ops: ops}
	var probes []string
	sevs := []int{0, 2, 3, 4, 5, 6, 7, 8, 9, 11, 12, 13, 14, -2, 77}
	for i, e := range loggers {
		for k := 0; k < 6; k++ {
			ep := eps[rg.Intn(len(eps))]
			if ep.Recv == "pkg" {
				continue
			}
			sev := ep.Sev
			if ep.Sev == sevParam && ep.Kind == "level" {
				sev = sevs[rg.Intn(len(sevs))]
			} else if ep.Sev == sevParam {
				sev = 2 + rg.Intn(4)
			}
			events = nil
			ep.call(e, sev)
			n := countWrites()
			L := int(e.Level())
			exp := sev != sevNever && specAdmits(as, dbg, L, sev)
			cell := c01Cell{"probe", as, dbg, L, ep.Recv, ep.Name, sev, n, exp}
			want := 0
			if exp {
				want = 1
			}
			if n != want {
				r.Fail(fmt.Sprintf("C01/gate:%s.%s", ep.Recv, ep.Name),
					fmt.Sprintf("after a history: %s.%s severity %d on logger %d at level %d (debug=%v): %d write(s), the rule says %d", ep.Recv, ep.Name, sev, i, L, dbg, n, want), h)
			}
			h.Probes = append(h.Probes, cell)
			p := sev
			if ep.Sev == sevNever {
				p = 0
			}
			probes = append(probes, fmt.Sprintf("(%s, %s, %s, %s, %s)", cNat(i), cStr(ep.Recv), cStr(ep.Name), cZ(int64(p)), cZ(int64(n))))
		}
	}
	term := fmt.Sprintf("Hist %s %s %s", cZ(int64(lvl0)), cList(opsCoq), cList(probes))
	r.AddCase(term, h, len(ops) >= 2, term)
	r.Dist["history"]++
}

func replayC01(r *Run, file string) {
	var cell c01Cell
	loadReplay(file, &cell)
	snap := slog.VerifSnapshot()
	r.Coq("Require Import Verif.Model.Base Verif.Model.Level Verif.Model.Emit Verif.Corr.C01.", "case", "ok")
	if cell.Kind == "history" || cell.Name == "" {
		fmt.Println("REPLAY: history replays re-run the generator with the recorded seed: VERIF_SEED=<seed> ./check C01")
		return
	}
	resetProcess(snap)
	resetExpectedAs()
	slog.AddFlags(slog.LnoInterrupt)
	for v, t := range cell.As {
		if v >= 12 || v < 0 {
			_ = slog.RegisterLevel(slog.Level(v), fmt.Sprintf("replay%d", v), slog.RegWithTreatedAsLevel(slog.Level(t)))
			expectedAs[v] = t
		}
	}
	var ep entryPoint
	for _, e := range append(entryMethods(), pkgEntryPoints()...) {
		if e.Recv == cell.Recv && e.Name == cell.Name {
			ep = e
		}
	}
	e := slog.VerifEntryOf(slog.New("replay"))
	if ep.Recv == "pkg" {
		e = slog.VerifEntryOf(slog.Default())
	}
	e.SetWriter(pool[1]).SetErrorWriter(pool[1]).SetLevel(slog.Level(cell.L))
	c01Cell1(r, ep, e, cell.Dbg, cell.L, cell.R, "replay")
	finishReplay(r)
}
