package main

// C07: attribute assembly - sources (context, ancestors iff the inherit flag, the
// logger, the call), precedence (the last one wins), uniqueness and ascending order
// at top level and inside every group, in all three formats.
//
// The implementation is driven through its public API only: loggers are made with
// New / With / WithAttrs / ... , the record is emitted by a normal log call, the
// written bytes are captured by the recording writer pool.  Direct oracle: a
// reference merge written from the statement, compared with the decoded record.

import (
	"bytes"
	"context"
	"encoding/json"
	"fmt"
	"regexp"
	"runtime/debug"
	"sort"
	"strconv"
	"strings"

	"github.com/hedzr/logg/slog"
)

func init() { drivers["C07"] = runC07; replayers["C07"] = replayC07 }

// ---- context keys ----
type C07Key struct {
	Kind string `json:"kind"` // str | stringer | other
	S    string `json:"s,omitempty"`
	ID   int    `json:"id,omitempty"`
}

type c07Stringer struct{ s string }

func (k c07Stringer) String() string { return k.s }

type c07Other int

func (k C07Key) Go() any {
	switch k.Kind {
	case "str":
		return k.S
	case "stringer":
		return c07Stringer{k.S}
	}
	return c07Other(k.ID)
}

func (k C07Key) Coq() string {
	switch k.Kind {
	case "str":
		return "CKStr " + cStr(k.S)
	case "stringer":
		return "CKStringer " + cStr(k.S)
	}
	return "CKOther " + cZ(int64(k.ID))
}

// the attribute key the statement prints a context key under (string and Stringer keys)
func (k C07Key) name() (string, bool) { return k.S, k.Kind == "str" || k.Kind == "stringer" }

type C07KV struct {
	Key C07Key `json:"key"`
	Val GVal   `json:"val"` // kind "nil": a layer with a nil value
}

// ---- attribute arguments ----
// one or more consecutive arguments of a variadic ...any list
type C07Seg struct {
	Form  string  `json:"form"` // attr: one Attr per item | slice: one []Attr | attrs: one Attrs | pair: key, value per item
	Items []GAttr `json:"items"`
}

func c07Raw(segs []C07Seg) []any {
	var out []any
	for _, s := range segs {
		switch s.Form {
		case "attr":
			for _, a := range attrsGo(s.Items) {
				out = append(out, a)
			}
		case "slice":
			out = append(out, []slog.Attr(attrsGo(s.Items)))
		case "attrs":
			out = append(out, attrsGo(s.Items))
		case "pair":
			for _, it := range s.Items {
				out = append(out, it.Key, it.Val.Go())
			}
		default:
			panic("C07Seg form " + s.Form)
		}
	}
	return out
}

func c07Flat(segs []C07Seg) []GAttr {
	var out []GAttr
	for _, s := range segs {
		out = append(out, s.Items...)
	}
	return out
}

// forms "attr" and "pair" cannot carry a nil entry, "pair" cannot carry a group
func c07FormOK(form string, items []GAttr) bool {
	for _, it := range items {
		if it.Nil && (form == "attr" || form == "pair") {
			return false
		}
		if form == "pair" && (it.Val.Kind == "group" || it.Key == "") {
			return false
		}
	}
	return true
}

// ---- loggers ----
type C07Mod struct {
	Op   string   `json:"op"` // Set | SetAttrs | SetAttrs1
	Segs []C07Seg `json:"segs"`
}

type C07Logger struct {
	Name string `json:"name"`
	// Plain: New(name) | Args: New(name, args...) | OptWith: New(name, With(args...)) | OptAttrs1: New(name, WithAttrs1(attrs))
	// child only: With(args...) | WithAttrs(attrs...) | WithAttrs1(attrs) | WithContextKeys(keys...)
	Create   string   `json:"create"`
	Segs     []C07Seg `json:"segs,omitempty"`
	Mods     []C07Mod `json:"mods,omitempty"`
	Keys     []C07Key `json:"keys,omitempty"`      // registered context keys
	KeySplit int      `json:"key_split,omitempty"` // SetContextKeys(Keys[:KeySplit]...) then SetContextKeys(Keys[KeySplit:]...)
}

// the logger's own attributes as the API calls give them (New(name, args...) makes a
// list pre-filled with one nil entry per argument)
func (l C07Logger) own() []GAttr {
	var out []GAttr
	switch l.Create {
	case "Plain", "WithContextKeys":
	case "Args":
		for range c07Raw(l.Segs) {
			out = append(out, GAttr{Nil: true})
		}
		out = append(out, c07Flat(l.Segs)...)
	default:
		out = append(out, c07Flat(l.Segs)...)
	}
	for _, m := range l.Mods {
		out = append(out, c07Flat(m.Segs)...)
	}
	return out
}

func c07KeysGo(ks []C07Key) []any {
	var out []any
	for _, k := range ks {
		out = append(out, k.Go())
	}
	return out
}

func c07Build(parent *slog.Entry, l C07Logger) *slog.Entry {
	mk := func(args ...any) *slog.Entry {
		all := append([]any{l.Name}, args...)
		if parent == nil {
			return slog.VerifEntryOf(slog.New(all...))
		}
		return parent.New(all...)
	}
	raw := c07Raw(l.Segs)
	flat := attrsGo(c07Flat(l.Segs))
	var e *slog.Entry
	keysDone := false
	switch l.Create {
	case "Plain":
		e = mk()
	case "Args":
		e = mk(raw...)
	case "OptWith":
		e = mk(slog.With(raw...))
	case "OptAttrs1":
		e = mk(slog.WithAttrs1(flat))
	case "With":
		if parent == nil {
			e = mk().Set(raw...)
		} else {
			e = parent.With(raw...)
		}
	case "WithAttrs":
		if parent == nil {
			e = mk().SetAttrs([]slog.Attr(flat)...)
		} else {
			e = parent.WithAttrs([]slog.Attr(flat)...)
		}
	case "WithAttrs1":
		if parent == nil {
			e = mk().SetAttrs1(flat)
		} else {
			e = parent.WithAttrs1(flat)
		}
	case "WithContextKeys":
		if parent == nil {
			e = mk()
		} else {
			e = parent.WithContextKeys(c07KeysGo(l.Keys)...)
			keysDone = true
		}
	default:
		panic("C07Logger create " + l.Create)
	}
	if !keysDone && len(l.Keys) > 0 {
		if l.KeySplit > 0 && l.KeySplit < len(l.Keys) {
			e.SetContextKeys(c07KeysGo(l.Keys[:l.KeySplit])...)
			e.SetContextKeys(c07KeysGo(l.Keys[l.KeySplit:])...)
		} else {
			e.SetContextKeys(c07KeysGo(l.Keys)...)
		}
	}
	for _, m := range l.Mods {
		switch m.Op {
		case "Set":
			e.Set(c07Raw(m.Segs)...)
		case "SetAttrs":
			e.SetAttrs([]slog.Attr(attrsGo(c07Flat(m.Segs)))...)
		case "SetAttrs1":
			e.SetAttrs1(attrsGo(c07Flat(m.Segs)))
		default:
			panic("C07Mod op " + m.Op)
		}
	}
	return e
}

// ---- one case ----
type C07Case struct {
	Kind    string      `json:"kind"`
	Mode    string      `json:"mode"` // json | logfmt | color
	Inherit bool        `json:"inherit"`
	Chain   []C07Logger `json:"chain"` // root first; the last one logs
	Ctx     []C07KV     `json:"ctx,omitempty"`
	NilCtx  bool        `json:"nil_ctx,omitempty"`
	Call    string      `json:"call"` // InfoContext WarnContext ErrorContext DebugContext LogAttrs | Info Warn (no context argument)
	Level   int         `json:"level,omitempty"`
	Msg     string      `json:"msg"`
	Args    []C07Seg    `json:"args,omitempty"`

	Hist string `json:"history,omitempty"` // "fresh+warm" etc.: overrides the history derived from the case

	canon string // pattern cases: the pattern itself identifies the input
}

func (c C07Case) logger() C07Logger { return c.Chain[len(c.Chain)-1] }
func (c C07Case) hasCtxArg() bool   { return c.Call != "Info" && c.Call != "Warn" }
func (c C07Case) severity() int {
	switch c.Call {
	case "InfoContext", "Info":
		return 4
	case "WarnContext", "Warn":
		return 3
	case "ErrorContext":
		return 2
	case "DebugContext":
		return 5
	}
	return c.Level
}

type c07Obs struct {
	Payloads [][]byte
	Name     string
	OwnKeys  [][]string
	Panic    string
	Anc      []c07Obs // one probe record through every ancestor of the logging logger, issued AFTER its call
	Late     [][]byte // chains of two and more: the root is given one more attribute ("zzlate") after all that, then the logging logger issues one more record
}

const c07TagW, c07MinW = 3, 36

// emit builds the chain and issues the log call; a panic of the library is an observation
func (c C07Case) emit() (o c07Obs) {
	defer func() {
		if p := recover(); p != nil {
			o.Panic = fmt.Sprint(p)
			events = nil
		}
	}()
	return c.emit1()
}

// hist: the history a case runs under, a function of the case itself (so that a replay repeats it):
// fresh = the pools are emptied first (a first record on 128-slot attribute slices and 1 KiB buffers),
// twice = the same call is issued twice and the SECOND record is the observation (what the first
// call left behind in the logger, the pooled slice or the pooled context must not show)
// warm = a small record of the same logger comes first (the pooled attribute slice then has the size
// small records get, whatever the size of the record under test)
func (c C07Case) hist() (fresh, twice, warm bool) {
	h := len(c.Msg) + 3*len(c.Chain) + 5*len(c.Ctx)
	for _, sg := range c.Args {
		h += len(sg.Items)
	}
	if c.Hist != "" {
		return strings.Contains(c.Hist, "fresh"), strings.Contains(c.Hist, "twice"), strings.Contains(c.Hist, "warm")
	}
	return h%2 == 0, (h/2)%2 == 0, (h/4)%2 == 0
}

func (c C07Case) emit1() c07Obs {
	fresh, twice, warm := c.hist()
	if fresh {
		slog.VerifPoolsFresh()
	}
	if c.Inherit {
		slog.AddFlags(slog.LattrsR)
	} else {
		slog.RemoveFlags(slog.LattrsR)
	}
	// Lattrs is a separate flag nothing in the statement depends on: LattrsR alone selects inheritance.
	// One case in three runs with Lattrs off (a function of the case, so that a replay repeats it).
	if (len(c.Msg)+len(c.Chain)+len(c.Args)+len(c.Ctx))%3 == 0 {
		slog.RemoveFlags(slog.Lattrs)
	} else {
		slog.AddFlags(slog.Lattrs)
	}
	slog.RemoveFlags(slog.Lcaller)
	slog.SetLevelOutputWidth(c07TagW)
	slog.SetMessageMinimalWidth(c07MinW)
	var o c07Obs
	var e *slog.Entry
	var ents []*slog.Entry
	for i, l := range c.Chain {
		e = c07Build(e, l)
		ents = append(ents, e)
		if i == 0 {
			e.SetLevel(slog.AlwaysLevel) // admits every severity; children take it over at creation
		}
		o.OwnKeys = append(o.OwnKeys, slog.VerifViewOf(e).AttrKeys)
	}
	e.SetLevel(slog.AlwaysLevel)
	// the ancestors' own levels are stricter than the record in two cases out of three (Error, Off): what an
	// ancestor contributes does not depend on what IT would admit
	for i := 0; i+1 < len(ents); i++ {
		switch (len(c.Msg) + i + len(c.Chain)) % 3 {
		case 0:
			ents[i].SetLevel(slog.ErrorLevel)
		case 1:
			ents[i].SetLevel(slog.OffLevel)
		}
	}
	switch c.Mode {
	case "json":
		e.SetJSONMode(true)
	case "logfmt":
		e.SetJSONMode(false)
		e.SetColorMode(false)
	default:
		e.SetJSONMode(false)
		e.SetColorMode(true)
	}
	e.SetWriter(pool[1]).SetErrorWriter(pool[1]).SetUTCMode(true)
	o.Name = slog.VerifViewOf(e).Name
	var ctx context.Context
	if !c.NilCtx {
		ctx = context.Background()
		for _, kv := range c.Ctx {
			ctx = context.WithValue(ctx, kv.Key.Go(), kv.Val.Go())
		}
	}
	args := c07Raw(c.Args)
	call := func() {
		switch c.Call {
		case "InfoContext":
			e.InfoContext(ctx, c.Msg, args...)
		case "WarnContext":
			e.WarnContext(ctx, c.Msg, args...)
		case "ErrorContext":
			e.ErrorContext(ctx, c.Msg, args...)
		case "DebugContext":
			e.DebugContext(ctx, c.Msg, args...)
		case "LogAttrs":
			e.LogAttrs(ctx, slog.Level(c.Level), c.Msg, args...)
		case "Info":
			e.Info(c.Msg, args...)
		case "Warn":
			e.Warn(c.Msg, args...)
		default:
			panic("C07Case call " + c.Call)
		}
	}
	if warm {
		e.InfoContext(ctx, "a small record first", "k", 1)
	}
	if !fresh { // (a case that starts on emptied pools keeps them: no other record first)
		hp := len(c.Msg)*5 + len(c.Ctx)*3 + len(c.Chain)
		for _, sg := range c.Args {
			hp += 7 * len(sg.Items)
		}
		inh := slog.IsAnyBitsSet(slog.LattrsR)
		historyPrelude(hp)
		if inh != slog.IsAnyBitsSet(slog.LattrsR) {
			panic("prelude changed the flags")
		}
	}
	if (len(c.Msg)+len(c.Chain)+len(c.Ctx))%2 == 0 {
		// in half of the cases (last flag operation before the call) the inherit flag reaches its value through a temporary change and its restore
		// (SaveFlagsAndMod with the flag toggled, then the function it returned)
		var restore func()
		if c.Inherit {
			restore = slog.SaveFlagsAndMod(0, slog.LattrsR)
		} else {
			restore = slog.SaveFlagsAndMod(slog.LattrsR)
		}
		restore()
	}
	if twice {
		call()
		args = c07Raw(c.Args) // the same values, built again
	}
	events = nil
	call()
	for _, ev := range events {
		if ev.Kind == "write" {
			o.Payloads = append(o.Payloads, ev.Payload)
		}
	}
	events = nil
	// the ancestors, after the call of their descendant: a record of each still carries exactly what the ancestor
	// (and, with the flag, ITS ancestors) was given
	for i := 0; i+1 < len(ents); i++ {
		a := ents[i]
		a.SetLevel(slog.AlwaysLevel)
		switch c.Mode {
		case "json":
			a.SetJSONMode(true)
		case "logfmt":
			a.SetJSONMode(false)
			a.SetColorMode(false)
		default:
			a.SetJSONMode(false)
			a.SetColorMode(true)
		}
		a.SetWriter(pool[1]).SetErrorWriter(pool[1]).SetUTCMode(true)
		ao := c07Obs{Name: slog.VerifViewOf(a).Name, OwnKeys: o.OwnKeys[:i+1]}
		events = nil
		a.InfoContext(ctx, c07AncMsg, c07Raw(c07AncArgs)...)
		for _, ev := range events {
			if ev.Kind == "write" {
				ao.Payloads = append(ao.Payloads, ev.Payload)
			}
		}
		events = nil
		o.Anc = append(o.Anc, ao)
	}
	// what a logger inherits is looked up when the record is made: an attribute the root is given NOW shows in the next
	// record of its descendant (with the inherit flag; never without)
	if len(ents) >= 2 {
		ents[0].Set("zzlate", 7)
		events = nil
		e.InfoContext(ctx, "late probe")
		for _, ev := range events {
			if ev.Kind == "write" {
				o.Late = append(o.Late, ev.Payload)
			}
		}
		events = nil
	}
	return o
}

const c07AncMsg = "ancestor probe"

var c07AncArgs = []C07Seg{{"pair", []GAttr{{Key: "zzprobe", Val: GVal{Kind: "int", I: 1}}}}}

// the case that ancestor i's probe record is judged as
func (c C07Case) ancestor(i int) C07Case {
	return C07Case{Kind: c.Kind, Mode: c.Mode, Inherit: c.Inherit, Chain: c.Chain[:i+1], Ctx: c.Ctx, NilCtx: c.NilCtx,
		Call: "InfoContext", Msg: c07AncMsg, Args: c07AncArgs, Hist: "none"}
}

// ---- the statement, in Go ----
type c07Src struct {
	Src string // ctx | anc<i> | own | args
	A   GAttr
}

func c07Lookup(ctx []C07KV, k C07Key) (GVal, bool) {
	for i := len(ctx) - 1; i >= 0; i-- { // the innermost layer
		if ctx[i].Key == k {
			return ctx[i].Val, true
		}
	}
	return GVal{}, false
}

// the sources in the order of the statement; withAnc says whether ancestors contribute
func (c C07Case) sources(withAnc bool) []c07Src {
	var out []c07Src
	if !c.NilCtx && c.hasCtxArg() {
		for _, k := range c.logger().Keys {
			name, ok := k.name()
			if v, found := c07Lookup(c.Ctx, k); ok && found && v.Kind != "nil" {
				out = append(out, c07Src{"ctx", GAttr{Key: name, Val: v}})
			}
		}
	}
	for i, l := range c.Chain {
		src := "own"
		if i < len(c.Chain)-1 {
			if !withAnc {
				continue
			}
			src = fmt.Sprintf("anc%d", i)
		}
		for _, a := range l.own() {
			out = append(out, c07Src{src, a})
		}
	}
	for _, a := range c07Flat(c.Args) {
		out = append(out, c07Src{"args", a})
	}
	return out
}

// each distinct key once, the last occurrence winning, ascending byte-wise key order - at every level
func c07Merge(list []GAttr) []GAttr {
	last := map[string]GAttr{}
	for _, a := range list {
		if !a.Nil {
			last[a.Key] = a
		}
	}
	keys := make([]string, 0, len(last))
	for k := range last {
		keys = append(keys, k)
	}
	sort.Strings(keys)
	out := make([]GAttr, 0, len(keys))
	for _, k := range keys {
		a := last[k]
		if a.Val.Kind == "group" {
			a.Val.Items = c07Merge(a.Val.Items)
		}
		out = append(out, a)
	}
	return out
}

type c07Exp struct {
	Path  string
	Empty bool // a group without members (visible in JSON only)
	Val   GVal
}

func c07Flatten(prefix string, tree []GAttr, keepEmpty bool, out *[]c07Exp) {
	for _, a := range tree {
		p := a.Key
		if prefix != "" {
			p = prefix + "." + a.Key
		}
		if a.Val.Kind == "group" {
			if len(a.Val.Items) == 0 {
				if keepEmpty {
					*out = append(*out, c07Exp{Path: p, Empty: true})
				}
				continue
			}
			c07Flatten(p, a.Val.Items, keepEmpty, out)
			continue
		}
		*out = append(*out, c07Exp{Path: p, Val: a.Val})
	}
}

func (c C07Case) expect(withAnc bool) []c07Exp {
	var list []GAttr
	for _, s := range c.sources(withAnc) {
		list = append(list, s.A)
	}
	var out []c07Exp
	c07Flatten("", c07Merge(list), c.Mode == "json", &out)
	return out
}

// ---- decoding the record ----
type c07Leaf struct {
	Path  string
	Empty bool
	J     *jnode // JSON
	Raw   string // logfmt, colour: the value as printed
}

var c07TS = regexp.MustCompile(`^\d\d:\d\d:\d\d\.\d{6}Z$`)

func c07FlattenJSON(prefix string, ms []jmember, out *[]c07Leaf, structural *string) {
	for i, m := range ms {
		if i > 0 && *structural == "" {
			if ms[i-1].Key == m.Key {
				*structural = fmt.Sprintf("duplicate-key: member %q occurs twice in the object %q", m.Key, prefix)
			} else if ms[i-1].Key > m.Key {
				*structural = fmt.Sprintf("order: member %q follows %q in the object %q", m.Key, ms[i-1].Key, prefix)
			}
		}
		p := m.Key
		if prefix != "" {
			p = prefix + "." + m.Key
		}
		if m.Val.Kind == "object" {
			if len(m.Val.Members) == 0 {
				*out = append(*out, c07Leaf{Path: p, Empty: true})
				continue
			}
			c07FlattenJSON(p, m.Val.Members, out, structural)
			continue
		}
		v := m.Val
		*out = append(*out, c07Leaf{Path: p, J: &v})
	}
}

// returns the timestamp text, the attribute leaves in printed order, a structural verdict (JSON), or an error
func c07Decode(mode string, payload []byte, name string, sev int, msg string) (ts string, leaves []c07Leaf, structural string, err string) {
	if len(payload) == 0 || payload[len(payload)-1] != '\n' || strings.Count(string(payload), "\n") != 1 {
		return "", nil, "", "the record is not one line"
	}
	line := string(payload[:len(payload)-1])
	switch mode {
	case "json":
		n, e := parseJSONTree([]byte(line))
		if e != nil || n.Kind != "object" {
			return "", nil, "", fmt.Sprintf("not a JSON object: %v", e)
		}
		ms := n.Members
		next := func(key string) (jnode, bool) {
			if len(ms) == 0 || ms[0].Key != key {
				return jnode{}, false
			}
			v := ms[0].Val
			ms = ms[1:]
			return v, true
		}
		t, ok := next("time")
		if !ok || t.Kind != "string" {
			return "", nil, "", "time member missing"
		}
		ts = t.S
		if name != "" {
			if v, ok := next("logger"); !ok || !isStr(v, name) {
				return "", nil, "", "logger member missing or wrong"
			}
		}
		if v, ok := next("level"); !ok || !isStr(v, levelName(int64(sev))) {
			return "", nil, "", "level member missing or wrong"
		}
		if v, ok := next("msg"); !ok || !isStr(v, msg) {
			return "", nil, "", "msg member missing or wrong"
		}
		c07FlattenJSON("", ms, &leaves, &structural)
	case "logfmt":
		pairs, e := tokenizeLogfmt(line)
		if e != nil {
			return "", nil, "", "does not tokenize: " + e.Error()
		}
		next := func(key string) (string, bool) {
			if len(pairs) == 0 || pairs[0].Key != key {
				return "", false
			}
			s, ok := unq(pairs[0].Raw)
			pairs = pairs[1:]
			return s, ok
		}
		var ok bool
		if ts, ok = next("time"); !ok {
			return "", nil, "", "time pair missing"
		}
		if name != "" {
			if s, ok := next("logger"); !ok || s != name {
				return "", nil, "", "logger pair missing or wrong"
			}
		}
		if s, ok := next("level"); !ok || s != levelName(int64(sev)) {
			return "", nil, "", "level pair missing or wrong"
		}
		if s, ok := next("msg"); !ok || s != msg {
			return "", nil, "", "msg pair missing or wrong"
		}
		for _, p := range pairs {
			leaves = append(leaves, c07Leaf{Path: p.Key, Raw: p.Raw})
		}
	default:
		plain, _ := sgrScan([]byte(line))
		bar := strings.Index(plain, "| ")
		if bar < 0 {
			return "", nil, "", "no timestamp separator"
		}
		ts = plain[:bar]
		head := plain[bar+2:]
		if name != "" {
			if !strings.HasPrefix(head, name+" ") {
				return "", nil, "", "logger name missing"
			}
			head = head[len(name)+1:]
		}
		tag := "[" + slog.Level(sev).ShortTag(c07TagW) + "] "
		if !strings.HasPrefix(head, tag) {
			return "", nil, "", fmt.Sprintf("level tag %q missing in %q", tag, head)
		}
		head = head[len(tag):]
		padded := msg
		for len(padded) < c07MinW {
			padded += " "
		}
		if !strings.HasPrefix(head, padded) {
			return "", nil, "", "padded message missing"
		}
		pairs, e := tokenizeColorAttrs(head[len(padded):])
		if e != nil {
			return "", nil, "", "attributes do not tokenize: " + e.Error()
		}
		for _, p := range pairs {
			leaves = append(leaves, c07Leaf{Path: p.Key, Raw: p.Raw})
		}
	}
	if !c07TS.MatchString(ts) {
		return ts, leaves, structural, fmt.Sprintf("timestamp text %q is not HH:MM:SS.micros in UTC", ts)
	}
	return ts, leaves, structural, ""
}

func c07LeafMatch(mode string, v GVal, l c07Leaf) string {
	switch mode {
	case "json":
		return matchJSONValue(v, *l.J)
	case "logfmt":
		return matchLogfmtLeaf(v, l.Raw)
	}
	return matchColorLeaf(v, l.Raw)
}

// every value some source gives for the path (all occurrences, not only the last)
func c07Candidates(list []GAttr, parts []string) []GVal {
	var out []GVal
	for _, a := range list {
		if a.Nil || a.Key != parts[0] {
			continue
		}
		if len(parts) == 1 {
			out = append(out, a.Val)
		} else if a.Val.Kind == "group" {
			out = append(out, c07Candidates(a.Val.Items, parts[1:])...)
		}
	}
	return out
}

// compare the decoded leaves with the expectation; "" = equal, else "<class>: <description>"
func (c C07Case) compare(exp []c07Exp, obs []c07Leaf) string {
	seen := map[string]bool{}
	for _, l := range obs {
		if seen[l.Path] {
			return fmt.Sprintf("duplicate-key: %q is printed more than once", l.Path)
		}
		seen[l.Path] = true
	}
	want := map[string]bool{}
	for _, e := range exp {
		want[e.Path] = true
	}
	srcOf := func(path string) string {
		top := strings.SplitN(path, ".", 2)[0]
		set := map[string]bool{}
		for _, s := range c.sources(true) {
			if !s.A.Nil && s.A.Key == top {
				set[s.Src] = true
			}
		}
		var l []string
		for k := range set {
			l = append(l, k)
		}
		sort.Strings(l)
		return strings.Join(l, ",")
	}
	for _, e := range exp {
		if !seen[e.Path] {
			return fmt.Sprintf("missing-source: %q is not printed although carried by [%s]", e.Path, srcOf(e.Path))
		}
	}
	for _, l := range obs {
		if !want[l.Path] {
			return fmt.Sprintf("unexpected-source: %q is printed but no source of this record carries it (carriers incl. ancestors: [%s])", l.Path, srcOf(l.Path))
		}
	}
	for i := range exp {
		if exp[i].Path != obs[i].Path {
			return fmt.Sprintf("order: position %d holds %q, in ascending order it is %q", i, obs[i].Path, exp[i].Path)
		}
	}
	var all []GAttr
	for _, s := range c.sources(true) {
		all = append(all, s.A)
	}
	for i, e := range exp {
		if e.Empty != obs[i].Empty {
			return fmt.Sprintf("precedence: %q: empty group expected %v, printed %v", e.Path, e.Empty, obs[i].Empty)
		}
		if e.Empty {
			continue
		}
		if why := c07LeafMatch(c.Mode, e.Val, obs[i]); why != "" {
			cls := "value"
			for _, cand := range c07Candidates(all, strings.Split(e.Path, ".")) {
				if cand.Kind != "group" && c07LeafMatch(c.Mode, cand, obs[i]) == "" {
					cls = "precedence"
				}
			}
			return fmt.Sprintf("%s: %q does not carry the value of its last occurrence: %s", cls, e.Path, why)
		}
	}
	return ""
}

func c07KeysOf(as []GAttr) []string {
	var out []string
	for _, a := range as {
		if a.Nil {
			out = append(out, "<nil>")
		} else {
			out = append(out, a.Key)
		}
	}
	return out
}

// the direct oracle: "" = holds, else (key, description); also returns the timestamp text
func c07Oracle(c C07Case, o c07Obs) (key, desc, ts string) {
	if o.Panic != "" {
		return "C07/panic", "building the loggers or the log call panicked: " + o.Panic, ""
	}
	if len(o.Payloads) != 1 {
		return "C07/record-count", fmt.Sprintf("%d payloads for one log call", len(o.Payloads)), ""
	}
	for i, l := range c.Chain {
		if want := c07KeysOf(l.own()); fmt.Sprint(want) != fmt.Sprint(o.OwnKeys[i]) {
			return "C07/own-attrs-registration", fmt.Sprintf("logger %d (%s): own attribute keys %v, the calls gave %v", i, l.Create, o.OwnKeys[i], want), ""
		}
	}
	ts, leaves, structural, err := c07Decode(c.Mode, o.Payloads[0], o.Name, c.severity(), c.Msg)
	if err != "" {
		return "C07/undecodable", err, ts
	}
	verdict := structural
	if verdict == "" {
		verdict = c.compare(c.expect(c.Inherit), leaves)
	}
	if verdict == "" {
		return "", "", ts
	}
	// is it the other inheritance behaviour?
	if len(c.Chain) > 1 && c.compare(c.expect(!c.Inherit), leaves) == "" && structural == "" {
		if c.Inherit {
			if len(c.logger().own()) == 0 {
				return "C07/inherit-skipped-when-no-own-attrs", "flag on, logger without own attributes: the ancestors' attributes are not in the record; " + verdict, ts
			}
			return "C07/inherit-missing-with-own-attrs", "flag on: the ancestors' attributes are not in the record; " + verdict, ts
		}
		return "C07/inherit-when-flag-off", "flag off: the ancestors' attributes are in the record; " + verdict, ts
	}
	cls := verdict[:strings.Index(verdict, ":")]
	return "C07/" + cls, verdict, ts
}

// ---- Gallina ----
func (c C07Case) Coq(o c07Obs, ts string) string {
	var keys []string
	for _, k := range c.logger().Keys {
		keys = append(keys, k.Coq())
	}
	ctx := "None"
	if !c.NilCtx {
		var kv []string
		if c.hasCtxArg() {
			for _, e := range c.Ctx {
				kv = append(kv, fmt.Sprintf("(%s, %s)", e.Key.Coq(), e.Val.Coq()))
			}
		}
		ctx = "(Some " + cList(kv) + ")"
	}
	var chain []string
	for i := len(c.Chain) - 1; i >= 0; i-- {
		chain = append(chain, attrsCoq(c.Chain[i].own()))
	}
	mode := map[string]string{"json": "ShJSON", "logfmt": "ShLogfmt", "color": "ShColor"}[c.Mode]
	var obs []byte
	if len(o.Payloads) > 0 {
		obs = o.Payloads[0]
	}
	enc := fmt.Sprintf("(mkenc %s %s %s None %s %s %s %s [] %s)", mode, cStr(o.Name), cZ(int64(c.severity())),
		cZ(c07TagW), cZ(c07MinW), cStr(ts), cStr(c.Msg), cBytes(obs))
	return fmt.Sprintf("mk07 %s %s %s %s %s %s", cBool(c.Inherit), cList(keys), ctx, cList(chain), attrsCoq(c07Flat(c.Args)), enc)
}

func c07Runes(c C07Case, o c07Obs, set map[rune]bool) {
	var walk func(as []GAttr)
	walk = func(as []GAttr) {
		for _, a := range as {
			collectRunes(set, a.Key)
			collectRunes(set, a.Val.S)
			for _, s := range a.Val.Strs {
				collectRunes(set, s)
			}
			if a.Val.Kind == "struct" || a.Val.Kind == "map" || a.Val.Kind == "nilptr" {
				collectRunes(set, fmt.Sprintf("{{%v}}", a.Val.Go()))
			}
			walk(a.Val.Items)
		}
	}
	for _, s := range c.sources(true) {
		walk([]GAttr{s.A})
	}
	for _, kv := range c.Ctx {
		collectRunes(set, kv.Key.S)
		walk([]GAttr{{Key: kv.Key.S, Val: kv.Val}})
	}
	collectRunes(set, c.Msg)
	collectRunes(set, o.Name)
	for _, p := range o.Payloads {
		collectRunes(set, string(p))
	}
}

// non-trivial: at least one key is carried by two different sources of the record
func c07Nontrivial(c C07Case) bool {
	by := map[string]string{}
	for _, s := range c.sources(c.Inherit) {
		if s.A.Nil {
			continue
		}
		if prev, ok := by[s.A.Key]; ok && prev != s.Src {
			return true
		}
		by[s.A.Key] = s.Src
	}
	return false
}

func c07Canon(c C07Case) string {
	if c.canon != "" {
		return c.canon
	}
	k := c.Kind
	c.Kind = ""
	b, _ := json.Marshal(c)
	c.Kind = k
	return string(b)
}

// ---- shrinking: delete one thing at a time while the same finding key is reported ----
func c07Clone(c C07Case) C07Case {
	b, _ := json.Marshal(c)
	var out C07Case
	must(json.Unmarshal(b, &out))
	return out
}

// all variants of the list with one attribute (at any depth) deleted
func c07DeleteOne(as []GAttr) [][]GAttr {
	var out [][]GAttr
	for i := range as {
		out = append(out, append(append([]GAttr{}, as[:i]...), as[i+1:]...))
	}
	for i := range as {
		if as[i].Val.Kind == "group" {
			for _, sub := range c07DeleteOne(as[i].Val.Items) {
				cp := append([]GAttr{}, as...)
				cp[i].Val.Items = sub
				out = append(out, cp)
			}
		}
	}
	return out
}

func c07SegVariants(segs []C07Seg) [][]C07Seg {
	var out [][]C07Seg
	for i := range segs {
		out = append(out, append(append([]C07Seg{}, segs[:i]...), segs[i+1:]...))
	}
	for i := range segs {
		for _, items := range c07DeleteOne(segs[i].Items) {
			cp := append([]C07Seg{}, segs...)
			cp[i] = C07Seg{segs[i].Form, items}
			out = append(out, cp)
		}
	}
	return out
}

func c07Smaller(c C07Case) []C07Case {
	var out []C07Case
	for i := 0; i < len(c.Chain)-1; i++ { // drop an ancestor
		d := c07Clone(c)
		d.Chain = append(d.Chain[:i], d.Chain[i+1:]...)
		out = append(out, d)
	}
	for _, v := range c07SegVariants(c.Args) {
		d := c07Clone(c)
		d.Args = v
		out = append(out, d)
	}
	for i := range c.Chain {
		for _, v := range c07SegVariants(c.Chain[i].Segs) {
			d := c07Clone(c)
			d.Chain[i].Segs = v
			out = append(out, d)
		}
		for j := range c.Chain[i].Mods {
			d := c07Clone(c)
			d.Chain[i].Mods = append(d.Chain[i].Mods[:j], d.Chain[i].Mods[j+1:]...)
			out = append(out, d)
			for _, v := range c07SegVariants(c.Chain[i].Mods[j].Segs) {
				d := c07Clone(c)
				d.Chain[i].Mods[j].Segs = v
				out = append(out, d)
			}
		}
		for j := range c.Chain[i].Keys {
			d := c07Clone(c)
			d.Chain[i].Keys = append(d.Chain[i].Keys[:j], d.Chain[i].Keys[j+1:]...)
			d.Chain[i].KeySplit = 0
			out = append(out, d)
		}
		if c.Chain[i].Create != "Plain" && len(c07Flat(c.Chain[i].Segs)) == 0 && c.Chain[i].Create != "WithContextKeys" {
			d := c07Clone(c)
			d.Chain[i].Create, d.Chain[i].Segs = "Plain", nil
			out = append(out, d)
		}
	}
	for j := range c.Ctx {
		d := c07Clone(c)
		d.Ctx = append(d.Ctx[:j], d.Ctx[j+1:]...)
		out = append(out, d)
	}
	return out
}

func c07Shrink(c C07Case, key string) C07Case {
	budget := 3000
	for changed := true; changed && budget > 0; {
		changed = false
		for _, d := range c07Smaller(c) {
			budget--
			if budget <= 0 {
				break
			}
			if k, _, _ := c07Oracle(d, d.emit()); k == key {
				c, changed = d, true
				break
			}
		}
	}
	return c
}

// ---- one case through the implementation, the oracle and into the Coq cases ----
type c07Replay struct {
	Case     C07Case `json:"case"`
	Observed string  `json:"observed,omitempty"`
	Why      string  `json:"why,omitempty"`
}

var c07Shrunk = map[string]int{}

func c07One(r *Run, c C07Case, toCoq bool, runeSet map[rune]bool) {
	o := c.emit()
	key, desc, ts := c07Oracle(c, o)
	if key == "" {
		for i, ao := range o.Anc {
			if k, d, _ := c07Oracle(c.ancestor(i), ao); k != "" {
				r.Dist["ancestor_probe_failures"]++
				r.Fail("C07/ancestor-after-descendant-call", fmt.Sprintf("after the call of its descendant, a record of ancestor %d (%s) is wrong: %s: %s", i, c.Chain[i].Name, k, d), c07Replay{c, "", d})
				break
			}
			r.Dist["ancestor_probes"]++
		}
		if len(c.Chain) >= 2 {
			has := len(o.Late) == 1 && bytes.Contains(o.Late[0], []byte("zzlate"))
			if len(o.Late) != 1 || has != c.Inherit {
				obs := ""
				if len(o.Late) > 0 {
					obs = strconv.Quote(string(o.Late[0]))
				}
				r.Fail("C07/ancestor-changed-later", fmt.Sprintf("the root logger was given the attribute zzlate after its descendant had logged; the descendant's next record (inherit flag %v): %d record(s), carries zzlate: %v", c.Inherit, len(o.Late), has), c07Replay{c, obs, "late ancestor attribute"})
			}
			r.Dist["late_ancestor_probes"]++
		}
	}
	if key != "" {
		small := c
		if c07Shrunk[key] < 3 { // later failures of the same key are only counted
			small = c07Shrink(c, key)
		}
		c07Shrunk[key]++
		so := small.emit()
		_, d2, _ := c07Oracle(small, so)
		obs := ""
		if len(so.Payloads) > 0 {
			obs = strconv.Quote(string(so.Payloads[0]))
		}
		if d2 == "" {
			small, d2 = c, desc
		}
		small.Kind = c.Kind
		r.Fail(key, d2, c07Replay{small, obs, d2})
	}
	nt := c07Nontrivial(c)
	if toCoq {
		c07Runes(c, o, runeSet)
		obs := ""
		if len(o.Payloads) > 0 {
			obs = strconv.Quote(string(o.Payloads[0]))
		}
		// kept as marshalled bytes: thousands of attribute trees held as structs make every GC cycle of the long
		// enumeration expensive
		raw, _ := json.Marshal(c07Replay{Case: c, Observed: obs})
		r.AddCase(c.Coq(o, ts), json.RawMessage(raw), nt, c07Canon(c))
	} else if c.canon != "" {
		// enumerated patterns are distinct inputs by construction: counted without keeping a hash per case
		r.Evals++
		if nt {
			r.DistinctExtra++
		}
	} else {
		r.Count(nt, c07Canon(c))
	}
	r.Dist["mode="+c.Mode]++
	if c.Inherit {
		r.Dist["inherit=on"]++
	} else {
		r.Dist["inherit=off"]++
	}
	r.Dist["depth="+strconv.Itoa(len(c.Chain))]++
	r.Dist["call="+c.Call]++
	n := len(c07Flat(c.Args))
	switch {
	case n == 0:
		r.Dist["args=0"]++
	case n <= 12:
		r.Dist["args=1..12"]++
	case n <= 32:
		r.Dist["args=13..32"]++
	default:
		r.Dist["args=33..64"]++
	}
	if len(c.logger().own()) == 0 {
		r.Dist["own=empty"]++
	}
	switch {
	case c.NilCtx:
		r.Dist["ctx=nil"]++
	case !c.hasCtxArg():
		r.Dist["ctx=none(background)"]++
	case len(c.logger().Keys) == 0:
		r.Dist["ctx=no-registered-keys"]++
	default:
		r.Dist["ctx=keys-registered"]++
	}
	for _, l := range c.Chain {
		r.Dist["create="+l.Create]++
	}
	if nt {
		r.Dist["nontrivial"]++
	}
}

// ---- generators ----
var c07KeyPool = []string{"a", "b", "c", "d", "e", "a1", "a10", "a2", "A", "B", "Z", "_x", "k", "ab", "abc", "é", "zz", "user", "id"}

var c07Kinds = func() []string {
	var out []string
	for _, k := range leafKinds {
		if k != "error" { // an error prints as an object in JSON: kept out so that every JSON object is a group (value kinds: C04-C06)
			out = append(out, k)
		}
	}
	return out
}()

type c07Gen struct {
	r      *Rng
	pool   []string
	serial int64
	depth  int
}

func (g *c07Gen) leaf() GVal {
	if g.r.Chance(55) {
		g.serial++
		return GVal{Kind: "int", I: g.serial} // distinct values make precedence observable
	}
	return genLeaf(g.r, EncProfile{TextClass: 1}, c07Kinds[g.r.Intn(len(c07Kinds))])
}

func (g *c07Gen) items(n, depth int, nils bool) []GAttr {
	var out []GAttr
	for i := 0; i < n; i++ {
		if nils && g.r.Chance(4) {
			out = append(out, GAttr{Nil: true})
			continue
		}
		a := GAttr{Key: g.pool[g.r.Intn(len(g.pool))]}
		if depth < g.depth && g.r.Chance(14) {
			a.Val = GVal{Kind: "group", Items: g.items(g.r.Intn(6), depth+1, nils), Ctor: g.r.Intn(2)}
		} else {
			a.Val = g.leaf()
		}
		out = append(out, a)
	}
	return out
}

// split a list into argument segments of random forms
func (g *c07Gen) segs(items []GAttr) []C07Seg {
	var out []C07Seg
	for len(items) > 0 {
		n := 1 + g.r.Intn(4)
		if g.r.Chance(20) {
			n = 1 + g.r.Intn(16)
		}
		if n > len(items) {
			n = len(items)
		}
		chunk := items[:n]
		items = items[n:]
		forms := []string{"attr", "slice", "attrs", "pair"}
		form := forms[g.r.Intn(4)]
		for !c07FormOK(form, chunk) {
			form = forms[1+g.r.Intn(2)]
		}
		out = append(out, C07Seg{form, append([]GAttr{}, chunk...)})
	}
	return out
}

func (g *c07Gen) key() C07Key {
	switch x := g.r.Intn(20); {
	case x < 9:
		return C07Key{Kind: "str", S: g.pool[g.r.Intn(len(g.pool))]}
	case x < 18:
		return C07Key{Kind: "stringer", S: g.pool[g.r.Intn(len(g.pool))]}
	}
	return C07Key{Kind: "other", ID: g.r.Intn(3)}
}

func c07Random(r *Rng, thorough bool) C07Case {
	g := &c07Gen{r: r, depth: 2}
	if thorough && r.Chance(30) {
		g.depth = 4
	}
	perm := append([]string{}, c07KeyPool...)
	for i := len(perm) - 1; i > 0; i-- {
		j := r.Intn(i + 1)
		perm[i], perm[j] = perm[j], perm[i]
	}
	g.pool = perm[:2+r.Intn(6)]
	c := C07Case{Kind: "random", Mode: []string{"json", "logfmt", "color"}[r.Intn(3)], Inherit: r.Bool(),
		Msg: []string{"m", "attribute assembly", "x=1 y", "c07"}[r.Intn(4)]}
	depth := 1 + r.Intn(4)
	for i := 0; i < depth; i++ {
		l := C07Logger{Name: fmt.Sprintf("n%d", i)}
		creates := []string{"Plain", "Args", "OptWith", "OptAttrs1"}
		if i > 0 {
			creates = append(creates, "With", "WithAttrs", "WithAttrs1", "WithContextKeys", "With", "WithAttrs")
		}
		l.Create = creates[r.Intn(len(creates))]
		budget := r.Intn(11)
		if r.Chance(30) {
			budget = 0 // a logger without own attributes
		}
		if l.Create != "Plain" && l.Create != "WithContextKeys" && budget > 0 {
			n := 1 + r.Intn(budget)
			budget -= n
			items := g.items(n, 0, true)
			switch l.Create {
			case "Args", "OptWith", "With":
				l.Segs = g.segs(items)
			default:
				l.Segs = []C07Seg{{"attrs", items}}
			}
		}
		for m := r.Intn(3); m > 0 && budget > 0; m-- {
			n := 1 + r.Intn(budget)
			budget -= n
			op := []string{"Set", "SetAttrs", "SetAttrs1"}[r.Intn(3)]
			items := g.items(n, 0, true)
			if op == "Set" {
				l.Mods = append(l.Mods, C07Mod{op, g.segs(items)})
			} else {
				l.Mods = append(l.Mods, C07Mod{op, []C07Seg{{"attrs", items}}})
			}
		}
		last := i == depth-1
		if (last && r.Chance(75)) || (!last && r.Chance(20)) || l.Create == "WithContextKeys" {
			for n := 1 + r.Intn(4); n > 0; n-- {
				l.Keys = append(l.Keys, g.key())
			}
			l.KeySplit = r.Intn(len(l.Keys) + 1)
		}
		c.Chain = append(c.Chain, l)
	}
	// the context: registered keys (of the logger and of ancestors) mostly present, plus keys nobody registered
	var ks []C07Key
	for _, l := range c.Chain {
		ks = append(ks, l.Keys...)
	}
	for n := r.Intn(3); n > 0; n-- {
		ks = append(ks, g.key())
	}
	for _, k := range ks {
		if r.Chance(25) {
			continue // absent
		}
		if r.Chance(15) {
			c.Ctx = append(c.Ctx, C07KV{k, g.leaf()}) // an outer layer that the next one hides
		}
		v := g.leaf()
		if r.Chance(12) {
			v = GVal{Kind: "nil"}
		} else if r.Chance(8) {
			v = GVal{Kind: "nilptr"} // a typed nil pointer is a value like any other (not "absent")
		}
		c.Ctx = append(c.Ctx, C07KV{k, v})
	}
	c.NilCtx = r.Chance(8)
	switch x := r.Intn(100); {
	case x < 40:
		c.Call = "InfoContext"
	case x < 60:
		c.Call, c.Level = "LogAttrs", []int{2, 3, 4, 5, 6, 9, 10, 11, customLevel, unregLevel}[r.Intn(10)]
	case x < 66:
		c.Call = "WarnContext"
	case x < 72:
		c.Call = "ErrorContext"
	case x < 78:
		c.Call = "DebugContext"
	case x < 90:
		c.Call = "Info"
	default:
		c.Call = "Warn"
	}
	var n int
	switch x := r.Intn(100); {
	case x < 30:
		n = r.Intn(5)
	case x < 65:
		n = 5 + r.Intn(16)
	default:
		n = 13 + r.Intn(52)
	}
	c.Args = g.segs(g.items(n, 0, true))
	return c
}

// ---- collision patterns: n positions in source order, position p carries key label pat[p] and value p ----
// split = how many positions the context, the ancestors, the logger and the call get
func c07Pattern(pat []int, split [4]int, inherit bool, mode string, variant int) C07Case {
	names := []string{"c", "a", "e", "b", "d"}
	at := func(p int) GAttr {
		return GAttr{Key: names[(pat[p]+variant)%5], Val: GVal{Kind: "int", I: int64(p + 1)}}
	}
	c := C07Case{Kind: "pattern", Mode: mode, Inherit: inherit, Call: "InfoContext", Msg: "p"}
	c.canon = fmt.Sprint("pattern", pat, split, inherit, mode, variant)
	p := 0
	var keys []C07Key
	for i := 0; i < split[0]; i, p = i+1, p+1 {
		a := at(p)
		k := C07Key{Kind: []string{"str", "stringer"}[(p+variant)%2], S: a.Key}
		keys = append(keys, k)
		c.Ctx = append(c.Ctx, C07KV{k, a.Val})
	}
	var anc []GAttr
	for i := 0; i < split[1]; i, p = i+1, p+1 {
		anc = append(anc, at(p))
	}
	var own []GAttr
	for i := 0; i < split[2]; i, p = i+1, p+1 {
		own = append(own, at(p))
	}
	var args []GAttr
	for i := 0; i < split[3]; i, p = i+1, p+1 {
		args = append(args, at(p))
	}
	mkl := func(name string, create string, as []GAttr) C07Logger {
		l := C07Logger{Name: name, Create: create}
		if len(as) > 0 {
			form := "attrs"
			if create == "Args" || create == "With" {
				form = "attr"
			}
			l.Segs = []C07Seg{{form, as}}
		} else if create != "WithContextKeys" {
			l.Create = "Plain"
		}
		return l
	}
	// (With / WithAttrs make a randomly named child, which costs a re-seeding of math/rand in the library: used for
	// one variant in eight here; the random cases use them freely)
	if len(anc) > 0 || variant%2 == 1 {
		if len(anc) >= 2 && variant%4 >= 2 {
			h := len(anc) / 2
			mid := "OptAttrs1"
			if variant%8 == 7 {
				mid = "WithAttrs"
			}
			c.Chain = append(c.Chain, mkl("r", "OptAttrs1", anc[:h]), mkl("m", mid, anc[h:]))
		} else {
			c.Chain = append(c.Chain, mkl("r", []string{"OptAttrs1", "Args"}[variant%2], anc))
		}
	}
	create := []string{"OptAttrs1", "Args", "OptWith"}[variant%3]
	if len(c.Chain) > 0 && variant%8 == 7 {
		create = []string{"WithAttrs", "With", "WithAttrs1"}[variant/8%3]
	}
	l := mkl("l", create, own)
	l.Keys = keys
	c.Chain = append(c.Chain, l)
	if len(args) > 0 {
		c.Args = []C07Seg{{[]string{"attr", "attrs", "slice", "pair"}[variant%4], args}}
	}
	return c
}

// restricted growth strings of length n with at most maxKeys labels: every way n positions can share keys
func c07RGS(n, maxKeys int, f func(pat []int)) {
	pat := make([]int, n)
	var rec func(i, used int)
	rec = func(i, used int) {
		if i == n {
			f(pat)
			return
		}
		for l := 0; l <= used && l < maxKeys; l++ {
			pat[i] = l
			nu := used
			if l == used {
				nu++
			}
			rec(i+1, nu)
		}
	}
	if n == 0 {
		f(pat)
		return
	}
	rec(0, 0)
}

// all ways to give n positions to the four sources (contiguous, in source order)
func c07Splits(n int) [][4]int {
	var out [][4]int
	for a := 0; a <= n; a++ {
		for b := 0; a+b <= n; b++ {
			for c := 0; a+b+c <= n; c++ {
				out = append(out, [4]int{a, b, c, n - a - b - c})
			}
		}
	}
	return out
}

func c07Enumerate(r *Run, runeSet map[rune]bool) {
	modes := []string{"json", "logfmt", "color"}
	idx := 0
	fullN, wideN := 6, 0
	sample := 241
	if r.Thorough() {
		fullN, wideN = 8, 14
		sample = 997
	}
	one := func(pat []int, split [4]int) {
		for _, inherit := range []bool{true, false} {
			c := c07Pattern(append([]int{}, pat...), split, inherit, modes[idx%3], idx/3)
			c07One(r, c, idx%sample == 0, runeSet)
			idx++
		}
	}
	// (E1) every key pattern with <= 5 keys over n <= fullN positions x every split over the four sources x flag
	for n := 1; n <= fullN; n++ {
		splits := c07Splits(n)
		c07RGS(n, 5, func(pat []int) {
			for _, s := range splits {
				one(pat, s)
			}
		})
	}
	r.Extra["exhaustive_E1"] = fmt.Sprintf("all key patterns (<= 5 keys) over 1..%d positions x all splits of the positions over context/ancestors/logger/call x flag on/off, formats in rotation", fullN)
	// (E2) longer lists (the sort of the standard library changes algorithm above 12 elements), on four fixed splits:
	// all patterns with <= 2 keys over fullN+1..wideN positions on every split, all patterns with exactly 3 keys over 13
	// positions on the splits in rotation
	for n := fullN + 1; n <= wideN; n++ {
		q := n / 4
		splits := [][4]int{{0, 0, 0, n}, {0, 0, n / 2, n - n/2}, {q, q, q, n - 3*q}, {0, n - 1, 0, 1}}
		c07RGS(n, 2, func(pat []int) {
			for _, s := range splits {
				one(pat, s)
			}
		})
		if n == 13 {
			c07RGS(n, 3, func(pat []int) {
				three := false
				for _, l := range pat {
					three = three || l == 2
				}
				if three {
					one(pat, splits[idx/2%4])
				}
			})
		}
	}
	if wideN > 0 {
		r.Extra["exhaustive_E2"] = fmt.Sprintf("all key patterns with <= 2 keys over %d..%d positions on each of four splits (all in the call / logger+call / spread over the four sources / ancestors+call) and all patterns with exactly 3 keys over 13 positions on these splits in rotation, x flag on/off", fullN+1, wideN)
	}
	r.Extra["pattern_evaluations"] = idx
}

// ---- corpus ----
func c07Corpus() []C07Case {
	iv := func(k string, i int64) GAttr { return GAttr{Key: k, Val: GVal{Kind: "int", I: i}} }
	grp := func(k string, items ...GAttr) GAttr { return GAttr{Key: k, Val: GVal{Kind: "group", Items: items}} }
	var base []C07Case
	// the witness of C07_inherit_iff_flag_refuted: flag on, the parent has k, the child nothing
	base = append(base, C07Case{Kind: "corpus:refutation-witness", Inherit: true, NilCtx: true, Call: "InfoContext", Msg: "m",
		Chain: []C07Logger{{Name: "r", Create: "WithAttrs", Segs: []C07Seg{{"attrs", []GAttr{iv("k", 1)}}}}, {Name: "c", Create: "Plain"}}})
	// the example of Props/C07.v
	ex := C07Case{Kind: "corpus:props-example", Inherit: true, Call: "InfoContext", Msg: "m",
		Ctx: []C07KV{{C07Key{Kind: "str", S: "c"}, GVal{Kind: "int", I: 0}}, {C07Key{Kind: "stringer", S: "a"}, GVal{Kind: "int", I: 0}}, {C07Key{Kind: "str", S: "b"}, GVal{Kind: "nil"}}},
		Chain: []C07Logger{
			{Name: "r", Create: "OptAttrs1", Segs: []C07Seg{{"attrs", []GAttr{iv("a", 1), iv("b", 1)}}}},
			{Name: "p", Create: "With", Segs: []C07Seg{{"pair", []GAttr{iv("b", 2)}}}},
			{Name: "l", Create: "WithAttrs", Segs: []C07Seg{{"attrs", []GAttr{iv("c", 3), grp("g", iv("b", 1), iv("a", 1), iv("b", 2))}}},
				Keys: []C07Key{{Kind: "str", S: "c"}, {Kind: "stringer", S: "a"}, {Kind: "str", S: "b"}}}},
		Args: []C07Seg{{"attr", []GAttr{iv("a", 4)}}, {"slice", []GAttr{{Nil: true}}}}}
	base = append(base, ex)
	off := c07Clone(ex)
	off.Inherit = false
	base = append(base, off)
	// one key on all four sources
	four := C07Case{Kind: "corpus:one-key-four-sources", Inherit: true, Call: "LogAttrs", Level: 4, Msg: "m",
		Ctx: []C07KV{{C07Key{Kind: "str", S: "k"}, GVal{Kind: "int", I: 1}}},
		Chain: []C07Logger{{Name: "r", Create: "Args", Segs: []C07Seg{{"attr", []GAttr{iv("k", 2)}}}},
			{Name: "l", Create: "Args", Segs: []C07Seg{{"pair", []GAttr{iv("k", 3)}}}, Keys: []C07Key{{Kind: "str", S: "k"}}}},
		Args: []C07Seg{{"pair", []GAttr{iv("k", 4)}}}}
	base = append(base, four)
	for drop := 0; drop < 3; drop++ { // without the call's, then without the logger's, then without the ancestor's
		d := c07Clone(four)
		d.Args = nil
		if drop >= 1 {
			d.Chain[1].Create, d.Chain[1].Segs = "Plain", nil
			d.Chain[1].Mods = []C07Mod{{"SetAttrs", []C07Seg{{"attrs", []GAttr{iv("z", 9)}}}}} // keeps the logger's list non-empty
		}
		if drop >= 2 {
			d.Inherit = false
		}
		base = append(base, d)
	}
	// more than 12 attributes with duplicates: the stable sort
	var many []GAttr
	for i := 0; i < 30; i++ {
		many = append(many, iv([]string{"b", "a", "c"}[i%3], int64(i)))
	}
	base = append(base, C07Case{Kind: "corpus:many-duplicates", Call: "Info", Msg: "m", Chain: []C07Logger{{Name: "r", Create: "Plain"}},
		Args: []C07Seg{{"attr", many[:7]}, {"attrs", many[7:20]}, {"pair", many[20:]}}})
	// large calls (the pooled attribute slice of a new process holds 128 entries): 56..64 key/value pairs from
	// the call on a logger with attributes of its own, an ancestor's and a context key, as the first large record after a small one
	for _, n := range []int{55, 56, 57, 60, 64} {
		var big []GAttr
		for i := 0; i < n; i++ {
			big = append(big, iv(fmt.Sprintf("k%02d", (i*37)%n), int64(i)))
		}
		for _, h := range []string{"fresh+warm", "fresh", "warm+twice"} {
			base = append(base, C07Case{Kind: "corpus:large-call", Inherit: true, Call: "InfoContext", Msg: "m", Hist: h,
				Ctx: []C07KV{{C07Key{Kind: "str", S: "reqid"}, GVal{Kind: "string", S: "r-42"}}},
				Chain: []C07Logger{{Name: "r", Create: "OptAttrs1", Segs: []C07Seg{{"attrs", []GAttr{iv("anc", 1)}}}},
					{Name: "l", Create: "Args", Segs: []C07Seg{{"pair", []GAttr{iv("own", 2), iv("k03", -1)}}}, Keys: []C07Key{{Kind: "str", S: "reqid"}}}},
				Args: []C07Seg{{"pair", big}}})
		}
	}
	// large CHAINS: what the loggers of a chain contribute exceeds the pooled slice (128 entries in a new process) before
	// the call's own arguments are looked at - three loggers with 45 / 70 attributes each, a context key, inherit on
	for _, per := range []int{45, 70} {
		mk := func(pfx string) []GAttr {
			var as []GAttr
			for i := 0; i < per; i++ {
				as = append(as, iv(fmt.Sprintf("%s%02d", pfx, (i*29)%per), int64(i)))
			}
			return as
		}
		for _, h := range []string{"fresh", "fresh+warm", "warm+twice"} {
			base = append(base, C07Case{Kind: "corpus:large-chain", Inherit: true, Call: "InfoContext", Msg: "m", Hist: h,
				Ctx: []C07KV{{C07Key{Kind: "str", S: "reqid"}, GVal{Kind: "string", S: "r-43"}}},
				Chain: []C07Logger{{Name: "r", Create: "OptAttrs1", Segs: []C07Seg{{"attrs", mk("ra")}}},
					{Name: "m", Create: "With", Segs: []C07Seg{{"pair", mk("mb")}}},
					{Name: "l", Create: "WithAttrs", Segs: []C07Seg{{"attrs", mk("lc")}}, Keys: []C07Key{{Kind: "str", S: "reqid"}}}},
				Args: []C07Seg{{"pair", []GAttr{iv("arg", 7), iv("ra01", -1)}}}})
		}
	}
	// context corner cases: nil context, a nil layer hiding a value, string and Stringer key of one name, an unregistered key
	keys := []C07Key{{Kind: "str", S: "a"}, {Kind: "stringer", S: "a"}, {Kind: "str", S: "b"}, {Kind: "other", ID: 1}, {Kind: "stringer", S: "c"}}
	cx := C07Case{Kind: "corpus:context", Call: "InfoContext", Msg: "m", Chain: []C07Logger{{Name: "r", Create: "Plain", Keys: keys, KeySplit: 2}},
		Ctx: []C07KV{{keys[0], GVal{Kind: "int", I: 1}}, {keys[1], GVal{Kind: "string", S: "from stringer"}}, {keys[2], GVal{Kind: "int", I: 2}},
			{keys[2], GVal{Kind: "nil"}}, {keys[3], GVal{Kind: "int", I: 3}}, {C07Key{Kind: "str", S: "unregistered"}, GVal{Kind: "int", I: 4}}}}
	base = append(base, cx)
	nc := c07Clone(cx)
	nc.NilCtx = true
	base = append(base, nc)
	bg := c07Clone(cx)
	bg.Call = "Info"
	base = append(base, bg)
	// keys registered on an ancestor only must not be looked up
	base = append(base, C07Case{Kind: "corpus:ancestor-context-keys", Inherit: true, Call: "InfoContext", Msg: "m",
		Ctx:   []C07KV{{C07Key{Kind: "str", S: "a"}, GVal{Kind: "int", I: 1}}},
		Chain: []C07Logger{{Name: "r", Create: "Plain", Keys: []C07Key{{Kind: "str", S: "a"}}}, {Name: "l", Create: "With", Segs: []C07Seg{{"pair", []GAttr{iv("b", 2)}}}}}})
	// groups: duplicates inside, nesting, the same group key from two sources (the later group replaces the earlier one)
	base = append(base, C07Case{Kind: "corpus:groups", Inherit: true, Call: "InfoContext", Msg: "m",
		Chain: []C07Logger{{Name: "r", Create: "OptAttrs1", Segs: []C07Seg{{"attrs", []GAttr{grp("g", iv("x", 1), iv("y", 1))}}}},
			{Name: "l", Create: "WithAttrs", Segs: []C07Seg{{"attrs", []GAttr{grp("h", iv("b", 1), grp("i", iv("z", 1), iv("a", 2), iv("z", 3)), iv("a", 4), iv("b", 5)), iv("a", 6)}}}}},
		Args: []C07Seg{{"attr", []GAttr{grp("g", iv("y", 2), iv("w", 3)), grp("e")}}}})
	var out []C07Case
	for _, c := range base {
		for _, m := range []string{"json", "logfmt", "color"} {
			d := c07Clone(c)
			d.Mode = m
			out = append(out, d)
		}
	}
	return out
}

const c07Header = "Require Import Verif.Model.Base Verif.Model.Mode Verif.Model.Attrs Verif.Model.Collect Verif.Corr.Enc Verif.Corr.C07."

func runC07(r *Run) {
	r.Rule = "logger chains of depth 1..4 built through New(name) / New(name, attrs...) / New(name, With(...)) / New(name, WithAttrs1(...)) / With / WithAttrs / WithAttrs1 / WithContextKeys, then Set / SetAttrs / SetAttrs1 (own lists of 0..10 attributes incl. nil entries and groups nested <= 2, thorough <= 4), ; histories (a function of the case): half of the cases start on emptied pools (and the attribute-slice size of a new process), half after a small record of the same logger, and in half of the cases the call is issued twice on the same loggers and the SECOND record is the one checked; after the call every ancestor of the logging logger issues a probe record of its own, judged by the same oracle (the descendant's call must not have changed what the ancestor carries)" +
		"context keys registered by SetContextKeys (one or two calls) / WithContextKeys: string keys, Stringer keys, other key types; context values present, absent, nil, hidden by an inner layer; nil context; calls without context argument; keys registered on ancestors only; " +
		"call lists of 0..64 attributes (as Attr, []Attr, Attrs, key-value pairs) drawn from a pool of 2..7 keys shared by all sources; inherit flag on/off; json/logfmt/colour; emitted by InfoContext/WarnContext/ErrorContext/DebugContext/LogAttrs/Info/Warn on a logger admitting everything; " +
		"corpus (refutation witness, Props example, one key on all four sources, 30 attributes on 3 keys, context corner cases, groups) + random cases + collision patterns (see extra.exhaustive_*). " +
		"Direct oracle: reference merge written from the statement (sources in order, last wins, ascending at every level) against the decoded record (encoding/json token stream / logfmt tokenizer / colour tokenizer), member names strictly ascending in every JSON object, own lists as registered. " +
		"Correspondence: Collect.collect + Encode.encode with the timestamp text of the observed record, all bytes compared. non-trivial = a key carried by two different sources; distinct by the whole input"
	snap := slog.VerifSnapshot()
	encSetup(snap)
	r.ShardSize = 100
	defer debug.SetGCPercent(debug.SetGCPercent(400)) // millions of short-lived loggers; the live heap is small
	runeSet := map[rune]bool{}
	for _, c := range c07Corpus() {
		c07One(r, c, true, runeSet)
	}
	for i := r.N(700, 12000); i > 0; i-- {
		c07One(r, c07Random(r.R, r.Thorough()), true, runeSet)
	}
	c07Enumerate(r, runeSet)
	r.Exhaust = true
	r.Coq(c07Header, "case", "(ok isp)")
	r.Prelude(isprintPrelude(runeSet))
	resetProcess(snap)
}

func replayC07(r *Run, file string) {
	var in c07Replay
	loadReplay(file, &in)
	snap := slog.VerifSnapshot()
	encSetup(snap)
	runeSet := map[rune]bool{}
	c07One(r, in.Case, true, runeSet)
	r.Coq(c07Header, "case", "(ok isp)")
	r.Prelude(isprintPrelude(runeSet))
	resetProcess(snap)
	finishReplay(r)
}
