package main

// C17: level names and the level registry - round trips and safe registration.

import (
	"encoding/json"
	"fmt"
	"strings"

	"github.com/hedzr/is"
	"github.com/hedzr/is/term/color"
	"github.com/hedzr/logg/slog"
)

func init() { drivers["C17"] = runC17; replayers["C17"] = replayC17 }

type regCall struct {
	V     int        `json:"v"`
	Title string     `json:"title"`
	Tags  *[6]string `json:"tags,omitempty"`
	Clr   int        `json:"clr"` // -1 none
	Bg    int        `json:"bg"`
	Treat int        `json:"treat"` // 12 = none
	Err   int        `json:"err"`   // 0 not given, 1 true, 2 false
	// observed
	Res string `json:"result"` // ok | refused
}

type c17Case struct {
	Kind  string    `json:"kind"`
	Calls []regCall `json:"calls"`
	Note  string    `json:"note,omitempty"`
}

func (c regCall) opts() []slog.RegOpt {
	var o []slog.RegOpt
	if c.Tags != nil {
		o = append(o, slog.RegWithShortTags(*c.Tags))
	}
	if c.Clr >= 0 {
		if c.Bg >= 0 {
			o = append(o, slog.RegWithColor(color.Color(c.Clr), color.Color(c.Bg)))
		} else {
			o = append(o, slog.RegWithColor(color.Color(c.Clr)))
		}
	}
	if c.Treat != 12 {
		o = append(o, slog.RegWithTreatedAsLevel(slog.Level(c.Treat)))
	}
	switch c.Err {
	case 1:
		o = append(o, slog.RegWithPrintToErrorDevice(true))
	case 2:
		o = append(o, slog.RegWithPrintToErrorDevice(false))
	}
	return o
}

func (c regCall) Coq() string {
	tags := "[]"
	if c.Tags != nil {
		var it []string
		for _, t := range c.Tags {
			it = append(it, cStr(t))
		}
		tags = cList(it)
	}
	return fmt.Sprintf("mkcall %s %s (mkopts %s %s %s %s %s) %s", cZ(int64(c.V)), cStr(c.Title), tags, cZ(int64(c.Clr)), cZ(int64(c.Bg)),
		cZ(int64(c.Treat)), cBool(c.Err == 1), cBool(c.Res == "ok"))
}

var titlePool = []string{"\u00dcberwachung", "\u00c9TAT", "\u0391\u03bb\u03c6\u03b1", "\u0130stanbul", "Stra\u00dfe", "notice", "NOTICE", "Swell", "audit", "info", "INFO", "warning", "Warn", "x", "verylongtitle", "Hint5", "ok", "trace2", "é-accent", "with space", "q\"uote",
	// titles with control characters (a styled title, bell, vertical tab, DEL), a backslash, U+2028
	"\x1b[1mALERT\x1b[0m", "bell\a", "v\vt", "del\x7f", "back\\slash", "sep\u2028", "tab\there", "nl\nhere"}

func genRegCall(rg *Rng, i int) regCall {
	c := regCall{Clr: -1, Bg: -1, Treat: 12}
	c.V = []int{12, 13, 14, 15, 100, -1, -5, 4, 7, 11, 1 << 20}[rg.Intn(11)]
	c.Title = titlePool[rg.Intn(len(titlePool))]
	if rg.Chance(40) {
		c.Title = fmt.Sprintf("%s%d", c.Title, rg.Intn(3))
	}
	if rg.Chance(40) {
		t := [6]string{"", "N", "NT", "NTC", "NOTC", "NOTIC"}
		if rg.Bool() {
			t[2] = "" // partially given
		}
		c.Tags = &t
	}
	if rg.Chance(30) {
		c.Clr = 31 + rg.Intn(6)
		if rg.Bool() {
			c.Bg = 40 + rg.Intn(6)
		}
	}
	if rg.Chance(50) {
		c.Treat = []int{0, 2, 3, 4, 5, 6, 9, -3, 12, 13}[rg.Intn(10)]
	}
	c.Err = rg.Intn(3)
	return c
}

// per-level observations compared with the model
type lvlObs struct {
	L       int      `json:"l"`
	Str     string   `json:"str"`
	Tags    []string `json:"tags"`  // ShortTag(1..5)
	Parse   int      `json:"parse"` // ParseLevel(String()) or -9999 on error
	TextRT  int      `json:"text_rt"`
	JSONRT  int      `json:"json_rt"`
	ErrDev  bool     `json:"errdev"`
	TreatAs int      `json:"treat_as"`
}

func observeLevel(l slog.Level) lvlObs {
	o := lvlObs{L: int(l), Str: l.String(), Parse: -9999, TextRT: -9999, JSONRT: -9999, TreatAs: int(l)}
	for n := 1; n <= 5; n++ {
		o.Tags = append(o.Tags, l.ShortTag(n))
	}
	// ShortTag(n) is a function of the level and n: the width the coloured format currently prints with does not enter
	for _, w := range []int{1, 2, 5} {
		slog.SetLevelOutputWidth(w)
		for n := 1; n <= 5; n++ {
			func() {
				defer func() {
					if recover() != nil {
						o.Tags[n-1] = fmt.Sprintf("<ShortTag(%d) panics while the output width is %d>", n, w)
					}
				}()
				if t := l.ShortTag(n); t != o.Tags[n-1] && !strings.HasPrefix(o.Tags[n-1], "<") {
					o.Tags[n-1] = fmt.Sprintf("<ShortTag(%d) is %q, and %q while the output width is %d>", n, o.Tags[n-1], t, w)
				}
			}()
		}
	}
	slog.SetLevelOutputWidth(3)
	if p, err := slog.ParseLevel(o.Str); err == nil {
		o.Parse = int(p)
	}
	if b, err := l.MarshalText(); err == nil {
		var x slog.Level = -7777
		if err := x.UnmarshalText(b); err == nil {
			o.TextRT = int(x)
		}
		// the bytes belong to the caller: wiping them must not show in what the level marshals to afterwards
		for i := range b {
			b[i] = '#'
		}
		if b2, err := l.MarshalText(); err != nil || string(b2) != o.Str {
			o.TextRT = -7778
		}
	}
	if b, err := json.Marshal(l); err == nil {
		var x slog.Level = -7777
		if err := json.Unmarshal(b, &x); err == nil {
			o.JSONRT = int(x)
		}
	}
	for _, e := range slog.VerifErrDev() {
		if e == l {
			o.ErrDev = true
		}
	}
	if t, ok := slog.VerifTreatedAs()[l]; ok {
		o.TreatAs = int(t)
	}
	return o
}

func c17One(r *Run, snap *slog.VerifRegistry, calls []regCall, kind string) {
	resetProcess(snap)
	slog.AddFlags(slog.LnoInterrupt)
	def := slog.VerifEntryOf(slog.Default())
	def.SetWriter(pool[1]).SetErrorWriter(pool[2]) // ParseLevel warns through the default logger
	c := c17Case{Kind: kind}
	failed := false
	fail := func(key, desc string) {
		if !failed {
			failed = true
			cc := c
			cc.Calls = append([]regCall{}, calls...)
			cc.Note = desc
			r.Fail(key, desc, cc)
		}
	}
	usedVals := map[int]bool{}
	for _, l := range slog.AllLevels() {
		usedVals[int(l)] = true
	}
	// names in use: what answers on the fresh registry (the built-in names and their aliases, in any
	// letter case - looked up for the titles this history is going to try) plus, below, every accepted title
	usedTitles := map[string]bool{}
	for _, l := range slog.AllLevels() {
		usedTitles[strings.ToLower(l.String())] = true
	}
	for _, cl := range calls {
		events = nil
		if _, err := slog.ParseLevel(cl.Title); err == nil {
			usedTitles[strings.ToLower(cl.Title)] = true
		}
	}
	for i := range calls {
		cl := &calls[i]
		before := slog.VerifRegistryDump()
		_, titleKnown := func() (slog.Level, bool) { // a title answers already?
			events = nil
			l, err := slog.ParseLevel(cl.Title)
			return l, err == nil
		}()
		err := slog.RegisterLevel(slog.Level(cl.V), cl.Title, cl.opts()...)
		cl.Res = "ok"
		if err != nil {
			cl.Res = "refused"
		}
		after := slog.VerifRegistryDump()
		mustRefuse := usedVals[cl.V] || usedTitles[strings.ToLower(cl.Title)]
		switch {
		case mustRefuse && err == nil:
			fail("C17/accepted-duplicate", fmt.Sprintf("RegisterLevel(%d, %q) was accepted although the value or the title is in use", cl.V, cl.Title))
		case !mustRefuse && err != nil && !titleKnown:
			fail("C17/refused-fresh", fmt.Sprintf("RegisterLevel(%d, %q) was refused although neither value nor title is in use: %v", cl.V, cl.Title, err))
		}
		if err != nil && before != after {
			fail("C17/refusal-not-clean", fmt.Sprintf("refused RegisterLevel(%d, %q) changed the tables", cl.V, cl.Title))
		}
		if err == nil {
			usedVals[cl.V] = true
			usedTitles[strings.ToLower(cl.Title)] = true
			l := slog.Level(cl.V)
			o := observeLevel(l)
			if o.Str != cl.Title {
				fail("C17/title", fmt.Sprintf("level %d registered as %q answers to %q", cl.V, cl.Title, o.Str))
			}
			if cl.Tags != nil {
				for n := 1; n <= 5; n++ {
					if cl.Tags[n] != "" && o.Tags[n-1] != cl.Tags[n] {
						fail("C17/short-tags", fmt.Sprintf("level %d: ShortTag(%d) = %q, registered %q", cl.V, n, o.Tags[n-1], cl.Tags[n]))
					}
				}
			}
			wantTreat := cl.V
			if cl.Treat < 12 {
				wantTreat = cl.Treat
			}
			if o.TreatAs != wantTreat {
				fail("C17/treated-as", fmt.Sprintf("level %d registered treated-as %d is gated as %d", cl.V, cl.Treat, o.TreatAs))
			}
			if o.ErrDev != (cl.Err == 1) {
				fail("C17/error-device", fmt.Sprintf("level %d registered with error-device=%v is routed errdev=%v", cl.V, cl.Err == 1, o.ErrDev))
			}
			// the same two effects, observed on a logger (not read from the tables): where a record of the level
			// lands, and which logger levels admit it
			pr := slog.VerifEntryOf(slog.New("c17probe"))
			pr.SetWriter(pool[1]).SetErrorWriter(pool[2]).SetLevel(slog.AlwaysLevel).SetColorMode(false)
			events = nil
			pr.LogAttrs(nil, l, "c17 probe")
			var dests []int
			for _, ev := range events {
				if ev.Kind == "write" {
					dests = append(dests, ev.W)
					// the level's name inside a record reads back as the name (titles may hold quotes, backslashes, line breaks)
					line := strings.TrimSuffix(string(ev.Payload), "\n")
					got, ok := "", false
					if pairs, err := tokenizeLogfmt(line); err == nil && !strings.Contains(line, "\n") {
						for _, p := range pairs {
							if p.Key == "level" {
								got, ok = unq(p.Raw)
							}
						}
					}
					if !ok || got != l.String() {
						fail("C17/level-name-in-record", fmt.Sprintf("level %d named %q: the logfmt record %q does not carry level=<that name, quoted>", cl.V, l.String(), string(ev.Payload)))
					}
				}
			}
			pr.SetJSONMode(true)
			events = nil
			pr.LogAttrs(nil, l, "c17 probe")
			for _, ev := range events {
				if ev.Kind == "write" {
					var m map[string]any
					if err := json.Unmarshal(ev.Payload, &m); err != nil || m["level"] != fixUTF8(l.String()) {
						fail("C17/level-name-in-record", fmt.Sprintf("level %d named %q: the JSON record %q does not decode to that level name", cl.V, l.String(), string(ev.Payload)))
					}
				}
			}
			pr.SetColorMode(false)
			events = nil
			wantDest := 1
			if cl.Err == 1 {
				wantDest = 2
			}
			if fmt.Sprint(dests) != fmt.Sprint([]int{wantDest}) {
				fail("C17/error-device-routing", fmt.Sprintf("level %d registered with error-device=%v (treated as %d): a record of it was written to %v (1 = normal, 2 = error writer)", cl.V, cl.Err == 1, wantTreat, dests))
			}
			dbg := is.DebugMode()
			is.SetDebugMode(false)
			for _, L := range []int{0, 1, 2, 3, 4, 6} {
				pr.SetLevel(slog.Level(L))
				is.SetDebugMode(false) // SetLevel(Debug/Trace) never reaches here (5 is left out), kept explicit
				if got, want := pr.Enabled(l), wantTreat <= L && wantTreat != 7; got != want && wantTreat >= 0 && wantTreat < 12 && wantTreat != 8 && wantTreat != 5 {
					fail("C17/treated-as-gating", fmt.Sprintf("level %d registered treated-as %d: a logger at level %d admits it = %v", cl.V, wantTreat, L, got))
				}
			}
			is.SetDebugMode(dbg)
			is.SetTraceMode(false)
		}
	}
	// every level: round trips and tag lengths
	var obs []string
	for _, l := range slog.AllLevels() {
		o := observeLevel(l)
		if o.Parse != o.L {
			key := "C17/name-roundtrip"
			if o.Str != strings.ToLower(o.Str) {
				key = "C17/name-roundtrip-uppercase"
			}
			fail(key, fmt.Sprintf("level %d prints as %q which parses back to %d", o.L, o.Str, o.Parse))
		}
		if o.TextRT != o.L {
			key := "C17/text-roundtrip"
			if o.Str != strings.ToLower(o.Str) {
				key = "C17/name-roundtrip-uppercase"
			}
			fail(key, fmt.Sprintf("level %d: text marshal/unmarshal gives %d", o.L, o.TextRT))
		}
		if o.JSONRT != o.L {
			key := "C17/json-roundtrip"
			if o.Str != strings.ToLower(o.Str) {
				key = "C17/name-roundtrip-uppercase"
			}
			fail(key, fmt.Sprintf("level %d: JSON marshal/unmarshal gives %d", o.L, o.JSONRT))
		}
		custom := false
		for _, cl := range calls {
			if cl.Res == "ok" && cl.V == o.L && cl.Tags != nil {
				custom = true
			}
		}
		ascii := true
		for _, ch := range o.Str {
			if ch >= 0x80 {
				ascii = false
			}
		}
		if !custom && ascii {
			for n := 1; n <= 5; n++ {
				if len(o.Tags[n-1]) != n {
					fail("C17/short-tag-length", fmt.Sprintf("level %d (%q): ShortTag(%d) = %q", o.L, o.Str, n, o.Tags[n-1]))
				}
			}
		}
		var tg []string
		for _, t := range o.Tags {
			tg = append(tg, cStr(t))
		}
		obs = append(obs, fmt.Sprintf("mkobs %s %s %s %s %s %s", cZ(int64(o.L)), cStr(o.Str), cList(tg), cZ(int64(o.Parse)), cBool(o.ErrDev), cZ(int64(o.TreatAs))))
	}
	var cc []string
	nOk, nRef := 0, 0
	for _, cl := range calls {
		cc = append(cc, cl.Coq())
		if cl.Res == "ok" {
			nOk++
		} else {
			nRef++
		}
		r.Dist["register="+cl.Res]++
	}
	c.Calls = calls
	term := fmt.Sprintf("mk %s %s", cList(cc), cList(obs))
	r.AddCase(term, c, nOk >= 1 && nRef >= 1, cList(cc))
}

func runC17(r *Run) {
	snap := slog.VerifSnapshot()
	r.ShardSize = 100
	r.Coq("Require Import Verif.Model.Base Verif.Model.Level Verif.Corr.C17.", "case", "ok")
	r.Rule = "the built-in levels plus random histories of 0..8 RegisterLevel calls (values negative / colliding / >= MaxLevel, titles of any case colliding with built-in names and aliases, all option combinations); after each call: refusal iff value or title in use, tables unchanged on refusal, effects on success; at the end for EVERY level: String/ParseLevel, text and JSON marshal round trips, ShortTag(1..5) lengths; non-trivial = >= 1 accepted and >= 1 refused registration; distinct by call list"
	c17One(r, snap, nil, "builtin")
	for i := r.N(200, 5000); i > 0; i-- {
		n := r.R.Intn(9)
		var calls []regCall
		for j := 0; j < n; j++ {
			calls = append(calls, genRegCall(r.R, j))
		}
		c17One(r, snap, calls, "random")
	}
	resetProcess(snap)
}

func replayC17(r *Run, file string) {
	var c c17Case
	loadReplay(file, &c)
	snap := slog.VerifSnapshot()
	r.Coq("Require Import Verif.Model.Base Verif.Model.Level Verif.Corr.C17.", "case", "ok")
	c17One(r, snap, c.Calls, "replay")
	finishReplay(r)
}
