module verifharness

go 1.23.0

require github.com/hedzr/logg v0.0.0

require (
	github.com/hedzr/is v0.7.13
	golang.org/x/net v0.39.0 // indirect
	golang.org/x/sys v0.32.0 // indirect
	golang.org/x/term v0.31.0 // indirect
	gopkg.in/hedzr/errors.v3 v3.3.5
)

replace github.com/hedzr/logg => /repo
