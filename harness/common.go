package main

import (
	"crypto/sha256"
	"encoding/hex"
	"encoding/json"
	"fmt"
	"os"
	"path/filepath"
	"sort"
	"strings"
)

// ---- one PRNG state for every random choice (splitmix64) ----
type Rng struct{ s uint64 }

func (r *Rng) U64() uint64 {
	r.s += 0x9e3779b97f4a7c15
	z := r.s
	z = (z ^ (z >> 30)) * 0xbf58476d1ce4e5b9
	z = (z ^ (z >> 27)) * 0x94d049bb133111eb
	return z ^ (z >> 31)
}
func (r *Rng) Intn(n int) int {
	if n <= 0 {
		return 0
	}
	return int(r.U64() % uint64(n))
}
func (r *Rng) Bool() bool        { return r.U64()&1 == 1 }
func (r *Rng) Chance(p int) bool { return r.Intn(100) < p } // p percent
func (r *Rng) Fork() *Rng        { return &Rng{r.U64()} }

// ---- Gallina printers ----
func cZ(n int64) string {
	if n < 0 {
		return fmt.Sprintf("(%d)", n)
	}
	return fmt.Sprintf("%d", n)
}
func cNat(n int) string { return fmt.Sprintf("%d%%nat", n) }
func cBool(b bool) string {
	if b {
		return "true"
	}
	return "false"
}
func cBytes(b []byte) string {
	var sb strings.Builder
	sb.WriteByte('[')
	for i, c := range b {
		if i > 0 {
			sb.WriteByte(';')
		}
		fmt.Fprintf(&sb, "x%02x", c)
	}
	sb.WriteByte(']')
	return sb.String()
}
func cStr(s string) string        { return cBytes([]byte(s)) }
func cList(items []string) string { return "[" + strings.Join(items, "; ") + "]" }
func cOpt(s *string) string {
	if s == nil {
		return "None"
	}
	return "(Some " + *s + ")"
}
func cSome(s string) string { return "(Some " + s + ")" }
func cBools(bs []bool) string {
	var it []string
	for _, b := range bs {
		it = append(it, cBool(b))
	}
	return cList(it)
}
func cZs(zs []int64) string {
	var it []string
	for _, z := range zs {
		it = append(it, cZ(z))
	}
	return cList(it)
}

// ---- run bookkeeping ----
type Failure struct {
	Key    string `json:"key"`
	Desc   string `json:"desc"`
	Replay any    `json:"replay"`
}

type Run struct {
	ID, Tier string
	Seed     uint64
	Out      string
	R        *Rng

	header    string // Require Import lines for cases files
	caseType  string
	okFn      string
	prelude   []string // extra definitions placed before the cases (per shard)
	cases     []string
	replays   []any
	distinct  map[string]bool
	Dist      map[string]int
	Samples   []any
	Failures  []Failure
	Exhaust   bool
	Rule      string
	Extra     map[string]any
	ShardSize int
	Evals     int // evaluations that are not correspondence cases (oracle-only)
	DistinctExtra int // distinct non-trivial evaluations counted by a child process (distinct by construction)
}

func NewRun(id, tier string, seed uint64, out string) *Run {
	return &Run{ID: id, Tier: tier, Seed: seed, Out: out, R: &Rng{seed*0x9e3779b97f4a7c15 + 12345},
		distinct: map[string]bool{}, Dist: map[string]int{}, Extra: map[string]any{}, ShardSize: 400}
}

func (r *Run) Thorough() bool { return r.Tier == "thorough" }
func (r *Run) N(quick, thorough int) int {
	if r.Thorough() {
		return thorough
	}
	return quick
}

func (r *Run) Coq(header, caseType, okFn string) {
	r.header, r.caseType, r.okFn = header, caseType, okFn
}
func (r *Run) Prelude(def string) { r.prelude = append(r.prelude, def) }

func hashOf(s string) string {
	h := sha256.Sum256([]byte(s))
	return hex.EncodeToString(h[:8])
}

// AddCase registers a correspondence case (Gallina term + JSON replay).  canon
// is the canonical projected input used for distinctness; nontrivial per the
// property's rule.
func (r *Run) AddCase(term string, replay any, nontrivial bool, canon string) {
	r.cases = append(r.cases, term)
	r.replays = append(r.replays, replay)
	r.Count(nontrivial, canon)
	if len(r.Samples) < 3 {
		r.Samples = append(r.Samples, replay)
	}
}

// AddCaseOnly registers a correspondence case whose evaluations were already counted (child processes).
func (r *Run) AddCaseOnly(term string, replay any) {
	r.cases = append(r.cases, term)
	r.replays = append(r.replays, replay)
	if len(r.Samples) < 3 {
		r.Samples = append(r.Samples, replay)
	}
}

// Count registers an evaluation for the coverage numbers only.
func (r *Run) Count(nontrivial bool, canon string) {
	r.Evals++
	if nontrivial {
		r.distinct[hashOf(canon)] = true
	}
}

func (r *Run) Fail(key, desc string, replay any) {
	// keep at most 5 failures per key (the first are the smallest generated)
	n := 0
	for _, f := range r.Failures {
		if f.Key == key {
			n++
		}
	}
	if n < 5 {
		r.Failures = append(r.Failures, Failure{key, desc, replay})
	}
	r.Dist["oracle_fail:"+key]++
}

func (r *Run) Finish() {
	must(os.MkdirAll(r.Out, 0o755))
	old, _ := filepath.Glob(filepath.Join(r.Out, "cases_*.v"))
	for _, f := range old {
		os.Remove(f)
	}
	var shards []string
	for i, k := 0, 0; i < len(r.cases); i, k = i+r.ShardSize, k+1 {
		j := i + r.ShardSize
		if j > len(r.cases) {
			j = len(r.cases)
		}
		name := fmt.Sprintf("cases_%d.v", k)
		var sb strings.Builder
		sb.WriteString(r.header)
		sb.WriteString("\n")
		for _, p := range r.prelude {
			sb.WriteString(p)
			sb.WriteString("\n")
		}
		fmt.Fprintf(&sb, "Definition cases : list %s := [\n%s\n].\n", r.caseType, strings.Join(r.cases[i:j], ";\n"))
		fmt.Fprintf(&sb, "Definition M := Eval vm_compute in mismatches %s cases.\nPrint M.\n", r.okFn)
		must(os.WriteFile(filepath.Join(r.Out, name), []byte(sb.String()), 0o644))
		shards = append(shards, name)
	}
	f, err := os.Create(filepath.Join(r.Out, "cases.jsonl"))
	must(err)
	enc := json.NewEncoder(f)
	for _, rp := range r.replays {
		must(enc.Encode(rp))
	}
	f.Close()
	keys := make([]string, 0, len(r.Dist))
	for k := range r.Dist {
		keys = append(keys, k)
	}
	sort.Strings(keys)
	sum := map[string]any{
		"property": r.ID, "tier": r.Tier, "seed": r.Seed,
		"evaluations": r.Evals, "distinct_nontrivial": len(r.distinct) + r.DistinctExtra,
		"cases": len(r.cases), "shards": shards, "shard_size": r.ShardSize,
		"rule": r.Rule, "distribution": r.Dist, "samples": r.Samples,
		"exhaustive": r.Exhaust, "failures": r.Failures, "extra": r.Extra,
	}
	b, err := json.MarshalIndent(sum, "", " ")
	must(err)
	must(os.WriteFile(filepath.Join(r.Out, "summary.json"), b, 0o644))
}

func must(err error) {
	if err != nil {
		fmt.Fprintln(os.Stderr, "harness:", err)
		os.Exit(3)
	}
}
