#!/bin/bash
# coqchk.sh: re-check every compiled file of the development (and everything it depends on) with Coq's
# independent checker and list the axioms of all loaded libraries.  About two minutes.  Run after ./setup.sh
# (or any ./check) on the unchanged tree; the log goes to evidence_static/coqchk.log.
cd "$(dirname "$0")/../coq" || exit 2
mods=$(find Model Proofs Props Corr Gen -name '*.vo' | sed 's|\.vo$||; s|/|.|g; s|^|Verif.|' | tr '\n' ' ')
mkdir -p ../evidence_static
s=$(date +%s)
timeout 7200 coqchk -silent -o -Q . Verif $mods > ../evidence_static/coqchk.log 2>&1
rc=$?
echo "coqchk exit=$rc $(( $(date +%s) - s ))s modules=$(echo $mods | wc -w)" | tee -a ../evidence_static/coqchk.log
exit $rc
