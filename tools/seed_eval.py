#!/usr/bin/env python3
"""Evaluate one seeded change:  seed_eval.py <PROP> <seed-out-dir> <name> [extra props to run ...]
Copies patch/demo/meta into /verif/seeded/<PROP>-<name>/, confirms in the seeder's scratch worktree
that the suite passes with the change and that the demo fails with / passes without it (commands from
RUN.txt are run by hand and recorded separately), then - under the exclusive /repo lock - applies the
patch to /repo, runs ./check for the property (and any extra ones), and restores /repo with git apply -R."""
import sys, os, json, shutil, subprocess, fcntl, time

def sh(cmd, cwd=None, timeout=1800):
    p = subprocess.run(cmd, shell=True, cwd=cwd, stdout=subprocess.PIPE, stderr=subprocess.STDOUT, text=True, timeout=timeout)
    return p.returncode, p.stdout

V = os.path.dirname(os.path.dirname(os.path.abspath(__file__)))  # the verification tree this script belongs to

def main():
    prop, src, name = sys.argv[1:4]
    extra = sys.argv[4:]
    dst = "%s/seeded/%s-%s" % (V, prop, name)
    os.makedirs(dst, exist_ok=True)
    for f in ([] if os.path.realpath(src) == os.path.realpath(dst) else os.listdir(src)):
        s = os.path.join(src, f)
        if os.path.isdir(s):
            shutil.copytree(s, os.path.join(dst, f), dirs_exist_ok=True)
        else:
            shutil.copy(s, dst)
    patch = os.path.join(dst, "patch.diff")
    meta_p = os.path.join(dst, "meta.json")
    try: meta = json.load(open(meta_p))
    except Exception: meta = {}
    meta["property"] = prop
    rc, out = sh("git -C /repo apply --check %s" % patch)
    if rc != 0:
        meta["applies_to_repo_head"] = False; meta["apply_error"] = out[-500:]
        json.dump(meta, open(meta_p, "w"), indent=1); print("patch does not apply:", out); return 1
    meta["applies_to_repo_head"] = True
    env = "export GOFLAGS=-mod=mod GOPROXY=off GOSUMDB=off GOTOOLCHAIN=local; "
    with open("/tmp/repo-mutation.lock", "w") as lk:
        fcntl.flock(lk, fcntl.LOCK_EX)
        try:
            rc, out = sh("git -C /repo apply %s" % patch); assert rc == 0, out
            if os.environ.get("SEED_SKIP_SUITE") and meta.get("suite_passes_with_change_confirmed"):
                pass  # regression over recorded seeds: the suite was run with this change when it was recorded
            else:
                rc, out = sh(V + "/baseline.sh")
                meta["suite_passes_with_change_confirmed"] = (rc == 0)
            results = {}
            for f in os.listdir(dst):  # replays of an earlier evaluation
                if f.startswith("replay_"): os.remove(os.path.join(dst, f))
            for p in [prop] + extra:
                t0 = time.time()
                rc, out = sh("cd %s && ./check %s" % (V, p), timeout=3000)
                lines = [l for l in out.splitlines() if l.startswith("VIOLATION") or l.startswith("OK ") or l.startswith("KNOWN-FINDING")]
                results[p] = {"exit": rc, "lines": lines[:12], "wall_s": round(time.time() - t0, 1)}
                # keep the replay(s) next to the seeded change
                for l in lines:
                    if l.startswith("VIOLATION") and "replay=" in l:
                        rp = l.split("replay=")[1].split()[0]
                        if os.path.exists(rp):
                            shutil.copy(rp, os.path.join(dst, "replay_" + os.path.basename(rp)))
            meta["check_results"] = results
            meta["caught_by"] = [p for p, r in results.items() if r["exit"] != 0]
        finally:
            rc, out = sh("git -C /repo apply -R %s" % patch)
            if rc != 0: print("RESTORE FAILED", out)
            rc, out = sh("git -C /repo status --short")
            meta["repo_clean_after"] = (out.strip() == "")
            # what the checks wrote while /repo was mutated (evidence of the mutated run, Gen files regenerated from the
            # mutated source) must not stay in the tree: back to the committed files, Gen regenerated from /repo as it is now
            sh("git -C %s checkout -- %s coq/Gen" % (V, " ".join("evidence/%s.json" % q for q in [prop] + extra)))
            sh("cd %s && run/bin/extract -repo /repo -out coq/Gen -status run/extract_status.json" % V)
    meta["ran"] = ["git -C /repo apply patch.diff", "/verif/baseline.sh", "./check " + " ".join([prop] + extra), "git -C /repo apply -R patch.diff"]
    json.dump(meta, open(meta_p, "w"), indent=1)
    print(json.dumps({k: meta[k] for k in ("suite_passes_with_change_confirmed", "caught_by", "check_results", "repo_clean_after")}, indent=1))
    # replays written while /repo was mutated do not belong in /verif/replays
    return 0

if __name__ == "__main__":
    sys.exit(main())
