#!/bin/bash
# seed_confirm.sh <worktree> <k>: in the seeder's scratch worktree, demo fails with the change, passes without; suite passes with it
export GOFLAGS=-mod=mod GOPROXY=off GOSUMDB=off GOTOOLCHAIN=local GOWORK=off
T=$1; k=$2
pat=$(grep -o "\-run [^ ]*" $T/_out/$k/RUN.txt | head -1 | sed "s/-run //; s/'//g; s/\"//g")
[ -z "$pat" ] && pat=Test
cd $T || exit 2
git checkout -q -- slog; rm -f slog/zz_*demo*_test.go slog/zz_seed*_test.go
git apply _out/$k/patch.diff || { echo "PATCH DOES NOT APPLY"; exit 2; }
demo=$(ls _out/$k/*_test.go 2>/dev/null | head -1)
if [ -z "$demo" ] && [ -d _out/$k/demo ]; then
  # external demo module (replace => this worktree): a test package, or a main program
  if ls _out/$k/demo/*_test.go >/dev/null 2>&1; then DR="go test -vet=off -count=1 ./..."; else DR="go run ."; fi
  (cd _out/$k/demo && $DR >/tmp/seed_with.txt 2>&1); w=$?
  (go test -vet=off -count=1 ./... >/tmp/seed_suite.txt 2>&1 && cd tests && go test -vet=off -count=1 ./... >>/tmp/seed_suite.txt 2>&1); s=$?
  git checkout -q -- slog
  (cd _out/$k/demo && $DR >/tmp/seed_without.txt 2>&1); wo=$?
  echo "external-demo demo_with_change_exit=$w suite_with_change_exit=$s demo_without_change_exit=$wo"
  git status --short | grep -v _out
  exit 0
fi
DD=slog
if [ -n "$demo" ] && grep -q "^package times" $demo; then DD=slog/internal/times; fi
keep=$(grep -o "c18_demo_test.go" _out/$k/RUN.txt | head -1); DN=${keep:-zz_demo_seed_test.go}
if [ -n "$demo" ]; then cp $demo $DD/$DN; fi
if [ -n "$demo" ]; then (cd $DD && go test -vet=off -count=1 -run "$pat" . >/tmp/seed_with.txt 2>&1); w=$?; else w=99; fi
rm -f $DD/$DN
(go test -vet=off -count=1 ./... >/tmp/seed_suite.txt 2>&1 && cd tests && go test -vet=off -count=1 ./... >>/tmp/seed_suite.txt 2>&1); s=$?
git checkout -q -- slog
if [ -n "$demo" ]; then cp $demo $DD/$DN; (cd $DD && go test -vet=off -count=1 -run "$pat" . >/tmp/seed_without.txt 2>&1); wo=$?; rm -f $DD/$DN; else wo=99; fi
echo "pattern=$pat demo_with_change_exit=$w suite_with_change_exit=$s demo_without_change_exit=$wo"
git status --short | grep -v _out
