#!/bin/bash
# regress_parallel.sh [n]: re-run every seeded change against the machinery as committed (HEAD of /verif), n workers at
# a time (default 4).  Each worker has a copy of this tree and a copy of /repo of its own, which it sees AS /repo in a
# private mount namespace (unshare -m, bind mounts), so /repo itself is never touched and the workers do not wait for
# each other.  Scratch under /tmp/regr-*, removed at the end.  Result: seeded/REGRESSION.txt (one line per change).
N=${1:-4}
PAT=${2:-}   # optional: only the seeded changes whose directory name contains this (result then in seeded/REGRESSION.<PAT>.txt)
V=$(cd "$(dirname "$0")"/.. && pwd)
S=/tmp/regr-$$
mkdir -p $S
git -C $V worktree add --detach $S/tree HEAD >/dev/null 2>&1 || exit 2
(cd $S/tree && flock -s /tmp/repo-mutation.lock ./setup.sh >/dev/null 2>&1)
for k in $(seq 0 $((N-1))); do
  cp -a /repo $S/repo-$k; cp -a $S/tree $S/tree-$k; : > $S/lock-$k
  unshare -m bash -c "mount --bind $S/repo-$k /repo && mount --bind $S/lock-$k /tmp/repo-mutation.lock && cd $S/tree-$k && tools/seed_part.sh $k $N $PAT" > $S/worker-$k.log 2>&1 &
done
wait
cat $S/tree-*/seeded/REGRESSION.[0-9]*.txt | grep -v '^DONE' | sed "s|$S/tree-[0-9]*/|/verif/|g" | sort > $V/seeded/REGRESSION${PAT:+.$PAT}.txt
git -C $V worktree remove --force $S/tree; git -C $V worktree prune
rm -rf $S
echo "changes: $(wc -l < $V/seeded/REGRESSION${PAT:+.$PAT}.txt)  not caught: $(grep -c 'caught_by= \[\]' $V/seeded/REGRESSION${PAT:+.$PAT}.txt)  errors: $(grep -c '^ERR' $V/seeded/REGRESSION${PAT:+.$PAT}.txt)"
