#!/bin/bash
# seed_all.sh: re-run every seeded change against the current machinery (quick tier); one line each in seeded/REGRESSION.txt
cd "$(dirname "$0")"/..
V=$(pwd)
export SEED_SKIP_SUITE=1
out=seeded/REGRESSION.txt; : > $out
for d in seeded/*/; do
  n=$(basename $d); prop=${n%%-*}; name=${n#*-}
  extra=$(python3 -c "import json;m=json.load(open('$d/meta.json'));print(' '.join(p for p in m.get('check_results',{}) if p!='$prop'))")
  tools/ev.sh $prop $V/seeded/$n $name $extra | cut -c1-400 >> $out
done
rm -rf $V/replays
grep -c "caught_by= \[\]" $out
