#!/bin/bash
# seed_part.sh k n: the seeded changes with index = k mod n, against this tree (quick tier); lines to seeded/REGRESSION.<k>.txt
cd "$(dirname "$0")"/..
V=$(pwd); k=$1; n=$2; pat=${3:-}
export SEED_SKIP_SUITE=1
out=seeded/REGRESSION.$k.txt; : > $out
i=0
for d in seeded/*$pat*/; do
  i=$((i+1)); [ $((i % n)) -eq $k ] || continue
  nm=$(basename $d); prop=${nm%%-*}; name=${nm#*-}
  extra=$(python3 -c "import json;m=json.load(open('$d/meta.json'));print(' '.join(p for p in m.get('check_results',{}) if p!='$prop'))")
  tools/ev.sh $prop $V/seeded/$nm $name $extra | cut -c1-400 >> $out
done
echo DONE >> $out
