#!/bin/bash
# ev.sh PROP out-dir name [extra props]: run seed_eval and print one line
python3 "$(dirname "$0")"/seed_eval.py "$@" 2>&1 | python3 -c "
import sys,json
t=sys.stdin.read()
try:
  j=json.loads(t[t.index('{'):])
  print(sys.argv[1], 'suite_ok=',j['suite_passes_with_change_confirmed'],'caught_by=',j['caught_by'], [ (p,[l[:90] for l in r['lines'][:2]]) for p,r in j['check_results'].items()], 'clean=',j['repo_clean_after'])
except Exception as e: print('ERR',t[-500:])
" "$1-$3"
