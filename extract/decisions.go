package main

// Translator for the decision fragment (DESIGN.md appendix B): straight-line
// code with if / switch / map lookup with ok / type assertion with ok / range
// loops (folds) / early returns, over integers, booleans, strings, lists and
// declared oracles for everything external (calls with effects, results of
// Write, type assertions).
//
// Two generations of targets share this file.  The first sixteen ("legacy",
// strict == false) keep the exact output they always had.  Targets with
// strict == true get, in addition: scoping of every name (an unbound name is
// a translation failure, not a Coq error), rejection of nested shadowing,
// join points (`let x := if .. in`) instead of duplicated continuations,
// folds over several variables, named results, calls declared per target
// (callSpec), effect state threaded through (`tr_`, `k_`), partial
// operations (slicing, strings.Repeat) bound through `match .. with None =>
// <panic>`, tagless switch / fallthrough.
//
// The rule for everything: what is not explicitly handled is rejected
// (x.bad), the site then falls back on the reference definition.

import (
	"fmt"
	"go/ast"
	"go/constant"
	"go/token"
	"go/types"
	"math/big"
	"sort"
	"strings"

	"golang.org/x/tools/go/packages"
)

// callSpec declares how one callee (key: see callKey) is rendered.
// Templates: %r = receiver, %0 %1 .. = arguments (translated), %% = percent.
type callSpec struct {
	pure      string                              // value of the call as a Coq term; the call has no effect
	partial   bool                                // .. and the term is an option: None = the call panics
	ev        string                              // event appended to the trace tr_
	res       string                              // value(s) the call returns; evaluated before the event is appended and the clock ticks
	tick      bool                                // k_ := S k_ afterwards (one more attempt of the external world)
	state     string                              // term returning (results.., effect state): a call of another translated function with effects
	ignore    bool                                // declared to have no effect the model tracks: the statement is dropped, with a note
	tail      string                              // constructor applied to the effect state for a call in tail position (the function ends with it)
	spread    bool                                // the call may pass its last argument with ... (the template sees the slice)
	check     func(x *tr, c *ast.CallExpr) string // extra condition on the call; non-empty = why it is outside the fragment
	unwrap    bool                                // f(g(..)) as a statement is the statement g(..): f only inspects the error g returns
	bres      bool                                // the state template returns a bres over the effect names in sub: BOk results state | BRange state | BPanic p state
	sub       []string
	lazy      bool // only the arguments the rendering mentions are translated (the others feed a text the model does not keep)
	ignoreRes bool // the results of a state call used as a statement are dropped (only its effect state is kept)
}

type target struct {
	pkg      func() *packages.Package
	recv     string
	fn       string
	coq      string            // name of the generated definition
	params   []string          // Coq binders, in order, e.g. "(level : Z)"
	result   string            // Coq result type
	final    string            // result expression at fall-through / bare return
	opaque   map[string]string // source text -> Coq term
	only     map[string]bool   // if set: assignments to other receiver fields are ignored
	from     func(stmts []ast.Stmt) []ast.Stmt
	setters    map[string]string // field name -> oracle (value -> field value -> value): v.f = e on a LOCAL value v rebinds v
	inlineVars bool // package-level variables that are not binders and are never assigned are read as their initialisers
	cond     func(fd *ast.FuncDecl) ast.Expr // translate one condition instead of a body
	comment  string
	fallback string

	// second generation
	file     string              // generated file (Gen/<file>.v); "" = Decisions
	strict   bool                // see the head of this file
	tymap    map[string]string   // Go type, printed relative to package slog -> Coq type
	calls    map[string]callSpec // callee key -> rendering
	effects  []string            // effect-state binders threaded through, e.g. tr_ k_
	panicT   string              // what panic(..) and a failed partial operation yield ("" = ActPanic)
	retfmt   string              // wrapper of returned values, e.g. "Some (%s)"
	nilTest  map[string]string   // Coq type -> nil test function (default is_nil)
	fields   map[string]string   // field name -> accessor function for fields of non-receiver values
	globals  []string            // names defined in the imported Coq files that the renderings may mention
	fuels    []string            // fuel (a nat term over the names in scope at loop entry) of the i-th three-clause for loop, in source order
	closures map[string]string   // local function values: name -> the exact source text the declaration in calls[name] stands for
	auto     bool                // undeclared calls of plain functions of the package are translated too, as auxiliary definitions aux_<name>
	retTy    string              // Coq type of the returned value (inside retfmt): needed for a return inside a for loop
	isAux    bool
	okfmt    string            // result of a normal return with two slots: the returned values (tt if none), the effect state
	panicFmt string            // what panic(x) yields, with one slot for x ("" = panicT)
	nils     map[string]string // Coq type -> its nil value (kinds the translator does not know)
}

type untranslatable struct{ why string }

type pend struct {
	name, term string
	let        bool // a binding `let 'name := term` (an effect of the expression on a tracked variable), not a partial operation
	names      []string
}

// what continue / break / return mean inside the loop body being translated (nil = not available)
type loopCtx struct {
	cont, brk, ret func() string
	retv           func(v string) string // return of a value out of a for loop
}

type tr struct {
	t        *target
	p        *packages.Package
	fd       *ast.FuncDecl
	recv     string
	free     map[string]bool
	notes    []string
	bound    map[string]int // strict: names in scope
	pending  []pend         // partial operations met in the expression being translated
	npend    int
	loops    []*loopCtx
	optLoop  int      // > 0: inside the body of a loop that folds over option state
	bresLoop int      // > 0: inside the step of a go_loop_b (the function ends in a bres): what ends the function is LbEnd (..)
	panics   []string // innermost last: what a panic yields inside the loop bodies being translated
	forIdx   map[*ast.ForStmt]int
	closed   map[types.Object]bool // local function values accepted as declared closures
	aux      []string              // auxiliary definitions (helpers translated on the way), in order
	auxName  map[*types.Func]string
	named    []string // Coq names of the named results (strict)
	namedPos map[string]token.Pos
	ignored  map[types.Object]bool
	names    map[types.Object]string
	fscope   *types.Scope
}

func (x *tr) bad(n ast.Node, why string) {
	panic(untranslatable{fmt.Sprintf("%s: %s: %s", relPos(n.Pos()), why, clip(src(n)))})
}

// positions are reported relative to the repository root, so that the
// generated files do not depend on where the repository lies
var repoRoot string

func relPos(p token.Pos) string {
	s := fset.Position(p).String()
	if repoRoot != "" && strings.HasPrefix(s, repoRoot) {
		s = "/repo" + s[len(repoRoot):]
	}
	return s
}

func clip(s string) string {
	s = strings.ReplaceAll(s, "\n", " ")
	if len(s) > 70 {
		return s[:70] + "..."
	}
	return s
}

func sanitize(s string) string {
	var sb strings.Builder
	for _, c := range s {
		if c >= 'a' && c <= 'z' || c >= 'A' && c <= 'Z' || c >= '0' && c <= '9' || c == '_' {
			sb.WriteRune(c)
		} else if c == '.' {
			sb.WriteRune('_')
		}
	}
	return sb.String()
}

// Go identifiers that would capture a Coq keyword or a name the generated text uses
var reserved = map[string]bool{
	"length": true, "app": true, "map": true, "fst": true, "snd": true, "rev": true, "repeat": true, "concat": true,
	"firstn": true, "skipn": true, "nth": true, "negb": true, "andb": true, "orb": true, "fold_left": true, "existsb": true,
	"fix": true, "fun": true, "let": true, "in": true, "end": true, "match": true, "with": true, "as": true, "at": true,
	"if": true, "then": true, "else": true, "return": true, "forall": true, "exists": true, "Type": true, "Set": true, "Prop": true,
	"Some": true, "None": true, "true": true, "false": true, "tt": true, "unit": true, "bool": true, "nat": true, "list": true,
	"option": true, "byte": true, "bytes": true, "Z": true, "N": true, "S": true, "O": true, "error": true, "member": true,
	"tr_": true, "k_": true, "st_": true, "brk_": true, "ret_": true, "rv_": true, "heap_": true,
}

func (x *tr) ident(name string) string {
	if x.t.strict && reserved[name] {
		return name + "_"
	}
	return name
}

// objName: the Coq name of a Go variable.  The translation binds by name, so a variable that is
// declared inside the scope of another variable of the same name (of this function) gets a suffix.
func (x *tr) objName(obj types.Object, name string) string {
	base := x.ident(name)
	if !x.t.strict || obj == nil || x.fscope == nil {
		return base
	}
	if n, ok := x.names[obj]; ok {
		return n
	}
	cnt := 0
	if obj.Parent() != nil && obj.Parent() != x.fscope {
		for sc := obj.Parent().Parent(); sc != nil; sc = sc.Parent() {
			if o := sc.Lookup(name); o != nil {
				if _, isVar := o.(*types.Var); isVar {
					cnt++
				}
			}
			if sc == x.fscope {
				break
			}
		}
	}
	n := base
	if cnt > 0 {
		n = fmt.Sprintf("%s_%d", base, cnt)
	}
	x.names[obj] = n
	return n
}

func (x *tr) qual(p *types.Package) string {
	if p == x.p.Types {
		return ""
	}
	return p.Name()
}

func (x *tr) kindOf(e ast.Expr) string {
	if !x.t.strict {
		tv, ok := x.p.TypesInfo.Types[e]
		if !ok {
			return "?"
		}
		return kindOfType(tv.Type)
	}
	return x.coqType(x.p.TypesInfo.TypeOf(e))
}

// coqType maps a Go type to the Coq type of its translation ("?" = none)
func (x *tr) coqType(t types.Type) string {
	if t == nil {
		return "?"
	}
	if x.t.tymap != nil {
		if c, ok := x.t.tymap[types.TypeString(t, x.qual)]; ok {
			return c
		}
	}
	switch u := t.Underlying().(type) {
	case *types.Basic:
		switch {
		case u.Info()&types.IsBoolean != 0:
			return "bool"
		case u.Info()&types.IsInteger != 0:
			return "Z"
		case u.Info()&types.IsString != 0:
			return "bytes"
		}
	case *types.Slice:
		el := x.coqType(u.Elem())
		if x.t.strict && el == "?" {
			return "?"
		}
		return "list " + paren(el)
	case *types.Map:
		if x.t.strict {
			k, v := x.coqType(u.Key()), x.coqType(u.Elem())
			if k == "Z" && v != "?" {
				return "map " + paren(v) // association list keyed by Z; a receiver field is a gomap (nil-able)
			}
			if k == "bytes" && v != "?" {
				return "mapB " + paren(v) // .. keyed by a string; a receiver field is a gomapB
			}
		}
	}
	return "?"
}

// intBits: signedness and width of an integer kind (0 = not a sized integer); int = int64 on the
// platforms the library is checked on
func intBits(b *types.Basic) (signed bool, bits int) {
	switch b.Kind() {
	case types.Int8:
		return true, 8
	case types.Int16:
		return true, 16
	case types.Int32:
		return true, 32
	case types.Int, types.Int64:
		return true, 64
	case types.Uint8:
		return false, 8
	case types.Uint16:
		return false, 16
	case types.Uint32:
		return false, 32
	case types.Uint, types.Uint64, types.Uintptr:
		return false, 64
	}
	return false, 0
}

func paren(s string) string {
	if strings.Contains(s, " ") && !strings.HasPrefix(s, "(") {
		return "(" + s + ")"
	}
	return s
}

func kindOfType(t types.Type) string {
	switch u := t.Underlying().(type) {
	case *types.Basic:
		switch {
		case u.Info()&types.IsBoolean != 0:
			return "bool"
		case u.Info()&types.IsInteger != 0:
			return "Z"
		case u.Info()&types.IsString != 0:
			return "bytes"
		}
	case *types.Slice:
		return "list " + kindOfType(u.Elem())
	}
	return "?"
}

func (x *tr) use(v string) string {
	if x.t.strict {
		if x.bound[v] == 0 {
			panic(untranslatable{"name not in scope (not a declared binder of the target, not bound before use): " + v})
		}
		return v
	}
	x.free[v] = true
	return v
}

// bind evaluates f with the names in scope
func (x *tr) bind(names []string, f func() string) string {
	for _, n := range names {
		x.bound[n]++
	}
	s := f()
	for _, n := range names {
		x.bound[n]--
	}
	return s
}

func (x *tr) let(nm, rhs string, body func() string) string {
	return fmt.Sprintf("let %s := %s in\n  %s", nm, rhs, x.bind([]string{nm}, body))
}

func tuple(names []string) string {
	if len(names) == 1 {
		return names[0]
	}
	return "(" + strings.Join(names, ", ") + ")"
}

func (x *tr) letTuple(names []string, rhs string, body func() string) string {
	if len(names) == 1 {
		return x.let(names[0], rhs, body)
	}
	return fmt.Sprintf("let '%s := %s in\n  %s", tuple(names), rhs, x.bind(names, body))
}

// scrut: a term in the scrutinee position of a match
func scrut(t string) string {
	if strings.HasPrefix(t, "if ") || strings.HasPrefix(t, "match ") {
		return "(" + t + ")"
	}
	return t
}

// endB: a term that ends the function (a bres), where it stands inside the step of a go_loop_b
func (x *tr) endB(t string) string {
	if x.bresLoop > 0 {
		return "LbEnd (" + t + ")"
	}
	return t
}

func (x *tr) panicTerm() string {
	if len(x.panics) > 0 {
		return x.panics[len(x.panics)-1] // inside the step function of a loop
	}
	if x.optLoop > 0 {
		return "None" // the step of a fold over option state
	}
	if x.t.panicT != "" {
		return x.t.panicT
	}
	return "ActPanic"
}

// hoist wraps body in the bindings of the partial operations met since mark
func (x *tr) hoist(mark int, body func() string) string {
	ps := append([]pend{}, x.pending[mark:]...)
	x.pending = x.pending[:mark]
	if len(ps) == 0 {
		return body()
	}
	var names []string
	for _, p := range ps {
		if p.let {
			names = append(names, p.names...)
		} else {
			names = append(names, p.name)
		}
	}
	inner := x.bind(names, body)
	for i := len(ps) - 1; i >= 0; i-- {
		if ps[i].let {
			inner = fmt.Sprintf("let '%s := %s in\n  %s", ps[i].name, ps[i].term, inner)
			continue
		}
		inner = fmt.Sprintf("match %s with\n  | None => %s\n  | Some %s => %s\n  end", scrut(ps[i].term), x.panicTerm(), ps[i].name, inner)
	}
	return inner
}

// noPending: the construct does not support partial operations in this position
func (x *tr) noPending(mark int, n ast.Node) {
	if len(x.pending) > mark {
		x.bad(n, "operation that can panic in a position where it is not supported")
	}
}

func (x *tr) partial(term string) string {
	x.npend++
	nm := fmt.Sprintf("r%d_", x.npend)
	x.pending = append(x.pending, pend{name: nm, term: term})
	x.bound[nm]++ // in scope for the rest of the expression; hoist re-binds it around the body
	return nm
}

func (x *tr) hoistDone(mark int) {
	// names handed out by partial() stay bound only until the statement is assembled
	for _, p := range x.pending[mark:] {
		if p.let {
			for _, n := range p.names {
				x.bound[n]--
			}
			continue
		}
		x.bound[p.name]--
	}
}

// sliceVar: e is a slice the target tracks by name (a local, a parameter, a receiver field among the
// effects): its Coq name
func (x *tr) sliceVar(e ast.Expr) (string, bool) {
	switch z := e.(type) {
	case *ast.Ident:
		if _, ok := x.p.TypesInfo.Uses[z].(*types.Var); ok && x.pkgVar(z) == "" {
			return x.objName(x.p.TypesInfo.Uses[z], z.Name), true
		}
	case *ast.SelectorExpr:
		if id, ok := z.X.(*ast.Ident); ok && id.Name == x.recv {
			nm := sanitize(src(z))
			for _, ef := range x.t.effects {
				if ef == nm {
					return nm, true
				}
			}
		}
	}
	return "", false
}

// copyCall: copy(dst, src) where dst is a tracked slice V or V[a:]: V is rebound to its new contents
// (a let hoisted in front of the statement, in evaluation order); the value is the count
// letPair: bind (fresh, v) := term in front of the statement being assembled; the value is the fresh name
func (x *tr) letPair(term, v string) string {
	x.npend++
	nm := fmt.Sprintf("r%d_", x.npend)
	x.pending = append(x.pending, pend{name: "(" + nm + ", " + v + ")", term: term, let: true, names: []string{nm, v}})
	x.bound[nm]++
	x.bound[v]++
	return nm
}

func (x *tr) copyCall(c *ast.CallExpr) string {
	if len(c.Args) != 2 {
		x.bad(c, "copy form")
	}
	if x.kindOf(c.Args[0]) == "hslice" && x.kindOf(c.Args[1]) == "hslice" {
		// slices of heap cells: the copy writes into the array of dst (heap_ is rebound)
		dst, src := x.expr(c.Args[0]), x.expr(c.Args[1])
		return x.letPair(fmt.Sprintf("h_copy %s %s (h_read %s %s)", x.use("heap_"), paren(dst), x.use("heap_"), paren(src)), "heap_")
	}
	var v, from string
	switch d := c.Args[0].(type) {
	case *ast.SliceExpr:
		nm, ok := x.sliceVar(d.X)
		if !ok || d.High != nil || d.Slice3 || d.Low == nil || x.kindOf(d.Low) != "Z" {
			x.bad(c, "copy into something that is not a tracked slice")
		}
		v, from = nm, x.expr(d.Low)
	default:
		nm, ok := x.sliceVar(d)
		if !ok {
			x.bad(c, "copy into something that is not a tracked slice")
		}
		v, from = nm, "0"
	}
	if x.kindOf(c.Args[0]) != "gslice" {
		x.bad(c, "copy into something that is not a byte slice")
	}
	srcT := x.expr(c.Args[1])
	switch x.kindOf(c.Args[1]) {
	case "gslice":
		srcT = "(sl_bytes " + srcT + ")"
	case "bytes":
	default:
		x.bad(c, "copy from something that is not bytes")
	}
	x.use(v)
	r := x.partial(fmt.Sprintf("sl_copy_at %s %s %s", v, paren(from), srcT)) // None: the slice expression dst[a:] is out of range
	x.npend++
	cnt := fmt.Sprintf("r%d_", x.npend)
	x.pending = append(x.pending, pend{name: "(" + cnt + ", " + v + ")", term: r, let: true, names: []string{cnt, v}})
	x.bound[cnt]++
	x.bound[v]++
	return cnt
}

// callKey names the callee: "LWs.WriteLeveled", "*Entry.Warn", "LogWriter.Write", "fmt.Sprintf", "len", "collectWrittenBytes"
func (x *tr) callKey(c *ast.CallExpr) string {
	switch f := c.Fun.(type) {
	case *ast.Ident:
		if obj, ok := x.p.TypesInfo.Uses[f].(*types.Var); ok && x.t.strict && !x.closed[obj] {
			return "" // a function value that is not a declared closure
		}
		return f.Name
	case *ast.SelectorExpr:
		if sel, ok := x.p.TypesInfo.Selections[f]; ok {
			if x.pkgVar(f.X) != "" {
				if k := x.pkgVar(f.X) + "." + f.Sel.Name; x.hasCall(k) {
					return k // a method of one particular package-level object, e.g. defaultLog.Warn
				}
			}
			return types.TypeString(sel.Recv(), x.qual) + "." + f.Sel.Name
		}
		if id, ok := f.X.(*ast.Ident); ok {
			if pn, ok := x.p.TypesInfo.Uses[id].(*types.PkgName); ok {
				return pn.Imported().Name() + "." + f.Sel.Name
			}
		}
	}
	return ""
}

// pkgVar: the name of the package-level variable e is, or ""
func (x *tr) pkgVar(e ast.Expr) string {
	if id, ok := e.(*ast.Ident); ok {
		if v, ok := x.p.TypesInfo.Uses[id].(*types.Var); ok && v.Parent() == x.p.Types.Scope() {
			return id.Name
		}
	}
	return ""
}

func (x *tr) hasHeap() bool {
	for _, e := range x.t.effects {
		if e == "heap_" {
			return true
		}
	}
	return false
}

func (x *tr) hasCall(k string) bool { _, ok := x.t.calls[k]; return ok }

func (x *tr) fill(tmpl string, c *ast.CallExpr) string { return x.fillWith(tmpl, c, nil) }

// fillWith: args, if given, are the arguments already translated
func (x *tr) fillWith(tmpl string, c *ast.CallExpr, args []string) string {
	var sb strings.Builder
	for i := 0; i < len(tmpl); i++ {
		if tmpl[i] != '%' || i+1 == len(tmpl) {
			sb.WriteByte(tmpl[i])
			continue
		}
		i++
		switch ch := tmpl[i]; {
		case ch == '%':
			sb.WriteByte('%')
		case ch == 'r':
			se, ok := c.Fun.(*ast.SelectorExpr)
			if !ok {
				x.bad(c, "call without a receiver")
			}
			sb.WriteString(x.expr(se.X))
		case ch >= '0' && ch <= '9':
			k := int(ch - '0')
			if k >= len(c.Args) {
				x.bad(c, "call with fewer arguments than its declaration")
			}
			if args != nil {
				sb.WriteString(args[k])
			} else {
				sb.WriteString(x.expr(c.Args[k]))
			}
		default:
			sb.WriteByte('%')
			sb.WriteByte(ch)
		}
	}
	return sb.String()
}

// checkArgs: every argument (also the ones the rendering drops) must itself be inside the fragment
func (x *tr) checkArgs(c *ast.CallExpr) {
	if c.Ellipsis != token.NoPos {
		if cs, ok := x.t.calls[x.callKey(c)]; !ok || !cs.spread {
			x.bad(c, "call with a spread argument")
		}
	}
	mark := len(x.pending)
	for _, a := range c.Args {
		x.expr(a)
	}
	x.noPending(mark, c)
}

func (x *tr) sprintf(c *ast.CallExpr) string {
	if len(c.Args) == 0 {
		x.bad(c, "Sprintf without a format")
	}
	tv, ok := x.p.TypesInfo.Types[c.Args[0]]
	if !ok || tv.Value == nil || tv.Value.Kind() != constant.String {
		if x.t.strict && x.kindOf(c.Args[0]) == "bytes" {
			// a format computed at run time (e.g. built from a name): the format is DATA that Sprintf interprets -
			// Dec.go_sprintf, partial (None = a verb or argument combination that is not modelled)
			f := x.expr(c.Args[0])
			var as []string
			for _, a := range c.Args[1:] {
				switch k := x.kindOf(a); {
				case k == "Z":
					as = append(as, "SInt "+paren(x.expr(a)))
				case k == "bytes" && types.TypeString(x.p.TypesInfo.TypeOf(a), x.qual) == "string":
					as = append(as, "SStr "+paren(x.expr(a)))
				default:
					x.bad(c, "Sprintf argument outside the fragment")
				}
			}
			return x.partial("go_sprintf " + paren(f) + " [" + strings.Join(as, "; ") + "]")
		}
		x.bad(c, "Sprintf with a format that is not a constant")
	}
	f := constant.StringVal(tv.Value)
	var parts []string
	lit := ""
	flush := func() {
		if lit != "" {
			parts = append(parts, cBytes(lit))
			lit = ""
		}
	}
	arg := 1
	for i := 0; i < len(f); i++ {
		if f[i] != '%' {
			lit += string(f[i])
			continue
		}
		i++
		if i == len(f) {
			x.bad(c, "Sprintf format ends in %")
		}
		switch f[i] {
		case '%':
			lit += "%"
		case 'd', 's':
			if arg >= len(c.Args) {
				x.bad(c, "Sprintf with missing arguments")
			}
			k := x.kindOf(c.Args[arg])
			a := x.expr(c.Args[arg])
			flush()
			switch {
			case f[i] == 'd' && k == "Z":
				parts = append(parts, "dec_of_Z "+paren(a))
			case f[i] == 's' && k == "bytes" && types.TypeString(x.p.TypesInfo.TypeOf(c.Args[arg]), x.qual) == "string":
				parts = append(parts, a)
			default:
				x.bad(c, "Sprintf verb/argument combination outside the fragment")
			}
			arg++
		default:
			x.bad(c, "Sprintf verb outside the fragment")
		}
	}
	flush()
	if arg != len(c.Args) {
		x.bad(c, "Sprintf with extra arguments")
	}
	if len(parts) == 0 {
		return "(@nil byte)"
	}
	return "(" + strings.Join(parts, " ++ ") + ")"
}

func (x *tr) nilTestOf(kind string, n ast.Node) string {
	if f, ok := x.t.nilTest[kind]; ok {
		return f
	}
	if x.t.strict {
		switch {
		case kind == "error":
			return "err_is_nil"
		case strings.HasPrefix(kind, "option "), strings.HasPrefix(kind, "gomap "), strings.HasPrefix(kind, "gomapB "):
			return "is_nil"
		}
		x.bad(n, "nil test on a value whose translation does not distinguish nil ("+kind+")")
	}
	return "is_nil"
}

func (x *tr) nilOf(kind string, n ast.Node) string {
	if v, ok := x.t.nils[kind]; ok {
		return v
	}
	switch {
	case kind == "error":
		return "err_nil"
	case strings.HasPrefix(kind, "option "), strings.HasPrefix(kind, "gomap "):
		return "None"
	}
	x.bad(n, "nil of a type outside the fragment ("+kind+")")
	return ""
}

// fieldKind: the Coq type of a selector expression on the receiver (maps are nil-able gomaps there)
func (x *tr) exprKind(e ast.Expr) string {
	k := x.kindOf(e)
	if strings.HasPrefix(k, "map ") || strings.HasPrefix(k, "mapB ") {
		if se, ok := e.(*ast.SelectorExpr); ok {
			if id, ok := se.X.(*ast.Ident); ok && id.Name == x.recv {
				return "go" + k
			}
		}
	}
	return k
}

func (x *tr) expr(e ast.Expr) string {
	if t, ok := x.t.opaque[src(e)]; ok {
		return t
	}
	if tv, ok := x.p.TypesInfo.Types[e]; ok && tv.Value != nil {
		switch tv.Value.Kind() {
		case constant.Int:
			return cZ(tv.Value.ExactString())
		case constant.Bool:
			return fmt.Sprint(constant.BoolVal(tv.Value))
		case constant.String:
			return cBytes(constant.StringVal(tv.Value))
		}
	}
	switch z := e.(type) {
	case *ast.ParenExpr:
		return "(" + x.expr(z.X) + ")"
	case *ast.Ident:
		switch z.Name {
		case "true", "false":
			return z.Name
		}
		if x.t.strict && z.Name == "nil" {
			return x.nilOf(x.kindOf(z), z)
		}
		if obj := x.p.TypesInfo.Uses[z]; obj != nil {
			if v, ok := obj.(*types.Var); ok && v.Parent() == x.p.Types.Scope() {
				if x.t.strict && x.t.inlineVars && x.bound["g_"+z.Name] == 0 {
					// a package-level variable the target does not take as an input: if it has an initialiser and nothing
					// in the package ever assigns it (or takes its address, or writes one of its elements), it stands for
					// that initialiser
					if init := varInit(x.p, z.Name); init != nil && !assignedInPackage(x.p, v) {
						x.notes = append(x.notes, "package variable never assigned, read as its initialiser: "+z.Name)
						return x.expr(init)
					}
				}
				return x.use("g_" + z.Name) // package-level variable
			}
			if x.t.strict {
				if x.ignored[obj] {
					x.bad(z, "use of a variable whose assignments were dropped as untracked")
				}
				if _, ok := obj.(*types.Var); !ok {
					x.bad(z, "identifier that is not a variable or a constant")
				}
			}
		}
		return x.use(x.objName(x.p.TypesInfo.Uses[z], z.Name))
	case *ast.SelectorExpr:
		if x.t.strict {
			id, ok := z.X.(*ast.Ident)
			if !ok {
				x.bad(z, "selector on something that is not a plain name")
			}
			sel, isSel := x.p.TypesInfo.Selections[z]
			if !isSel || sel.Kind() != types.FieldVal {
				x.bad(z, "selector that is not a field")
			}
			if id.Name != x.recv {
				// a field of a local value: an accessor function the target declares
				f, ok := x.t.fields[z.Sel.Name]
				if !ok {
					x.bad(z, "field of a value that is not the receiver")
				}
				return "(" + x.use(f) + " " + x.expr(z.X) + ")"
			}
		}
		return x.use(sanitize(src(z)))
	case *ast.UnaryExpr:
		if cl, ok := z.X.(*ast.CompositeLit); ok && z.Op == token.AND && x.t.strict {
			return x.expr(cl) // &T{..}: the value (a fresh object; nothing else refers to it)
		}
		switch z.Op {
		case token.NOT:
			return "(negb " + x.expr(z.X) + ")"
		case token.SUB:
			return "(- " + x.expr(z.X) + ")"
		}
	case *ast.CompositeLit:
		if _, isStruct := x.p.TypesInfo.TypeOf(z).Underlying().(*types.Struct); x.t.strict && isStruct && x.kindOf(z) != "?" {
			// T{a, b}: positional struct literal of a type the target maps to a tuple
			var els []string
			for _, e := range z.Elts {
				if _, kv := e.(*ast.KeyValueExpr); kv {
					x.bad(z, "keyed struct literal")
				}
				els = append(els, x.expr(e))
			}
			st := x.p.TypesInfo.TypeOf(z).Underlying().(*types.Struct)
			if len(els) != st.NumFields() {
				x.bad(z, "struct literal form")
			}
			return tuple(els)
		}
		if _, isSlice := x.p.TypesInfo.TypeOf(z).Underlying().(*types.Slice); x.t.strict && isSlice && x.kindOf(z) == "hslice" {
			// []T{a, b} on heap cells: a new array
			var els []string
			for _, e := range z.Elts {
				if _, kv := e.(*ast.KeyValueExpr); kv {
					x.bad(z, "keyed slice literal")
				}
				els = append(els, x.expr(e))
			}
			return x.letPair(fmt.Sprintf("h_lit %s [%s]", x.use("heap_"), strings.Join(els, "; ")), "heap_")
		}
		if x.t.strict {
			if _, isSlice := x.p.TypesInfo.TypeOf(z).Underlying().(*types.Slice); isSlice && x.kindOf(z) == "bytes" {
				// []byte{'m', 0x0a}: constant elements only
				var els []string
				for _, e := range z.Elts {
					tv, ok := x.p.TypesInfo.Types[e]
					if _, kv := e.(*ast.KeyValueExpr); kv || !ok || tv.Value == nil || tv.Value.Kind() != constant.Int {
						x.bad(z, "byte slice literal with a keyed or non-constant element")
					}
					n, exact := constant.Int64Val(tv.Value)
					if !exact || n < 0 || n > 255 {
						x.bad(z, "byte slice literal element out of range")
					}
					els = append(els, fmt.Sprintf("x%02x", n))
				}
				return "[" + strings.Join(els, ";") + "]"
			}
			if _, isSlice := x.p.TypesInfo.TypeOf(z).Underlying().(*types.Slice); isSlice && strings.HasPrefix(x.kindOf(z), "list ") {
				var els []string
				for _, e := range z.Elts {
					if _, kv := e.(*ast.KeyValueExpr); kv {
						x.bad(z, "keyed slice literal")
					}
					els = append(els, x.expr(e))
				}
				return "[" + strings.Join(els, "; ") + "]"
			}
		}
	case *ast.StarExpr:
		if nm, ok := x.deref(z); ok {
			return x.use(nm)
		}
	case *ast.BinaryExpr:
		if src(z.Y) == "nil" && (z.Op == token.EQL || z.Op == token.NEQ) {
			r := "(" + x.nilTestOf(x.exprKind(z.X), z) + " " + x.expr(z.X) + ")"
			if z.Op == token.NEQ {
				r = "(negb " + r + ")"
			}
			return r
		}
		a := x.expr(z.X)
		mark := len(x.pending)
		b := x.expr(z.Y)
		k := x.kindOf(z.X)
		if x.t.strict && k != x.kindOf(z.Y) {
			x.bad(z, "operands of different translated types")
		}
		if x.t.strict && (z.Op == token.SHR || z.Op == token.SHL || z.Op == token.ADD || z.Op == token.SUB || z.Op == token.MUL || z.Op == token.QUO) && k == "Z" {
			// fixed-width arithmetic: + - << can wrap in Go, the translation is on Z.  Accepted on int / int64
			// (unbounded by the convention of DESIGN.md 2.1); >> never wraps but needs a count >= 0
			lt, _ := x.p.TypesInfo.TypeOf(z.X).Underlying().(*types.Basic)
			wide := lt != nil && (lt.Kind() == types.Int || lt.Kind() == types.Int64 || lt.Kind() == types.UntypedInt || lt.Kind() == types.UntypedRune)
			switch z.Op {
			case token.SHR:
				rt, _ := x.p.TypesInfo.TypeOf(z.Y).Underlying().(*types.Basic)
				if tv, ok := x.p.TypesInfo.Types[z.Y]; ok && tv.Value != nil {
					return "(Z.shiftr " + a + " " + b + ")" // a constant count (the compiler rejects a negative one)
				}
				if rt == nil || rt.Info()&types.IsUnsigned == 0 {
					x.bad(z, "shift by a signed count (panics when negative)")
				}
				return "(Z.shiftr " + a + " " + b + ")"
			case token.SHL:
				x.bad(z, "left shift (can overflow)")
			case token.QUO:
				tv, isC := x.p.TypesInfo.Types[z.Y]
				if !wide || !isC || tv.Value == nil || constant.Sign(tv.Value) <= 0 {
					x.bad(z, "division other than of an int by a positive constant")
				}
				return "(Z.quot " + a + " " + b + ")" // Go truncates toward zero
			default:
				if !wide {
					x.bad(z, "arithmetic on a fixed-width type narrower than int (can wrap)")
				}
			}
		}
		switch z.Op {
		case token.LAND, token.LOR:
			if len(x.pending) > mark {
				// the right operand can panic, and Go evaluates it only when the left one does not
				// decide: the whole test becomes ONE partial operation
				if !x.t.strict || k != "bool" {
					x.bad(z, "operation that can panic in a position where it is not supported")
				}
				ps := append([]pend{}, x.pending[mark:]...)
				x.pending = x.pending[:mark]
				opt := "Some " + paren(b)
				for i := len(ps) - 1; i >= 0; i-- {
					x.bound[ps[i].name]--
					opt = fmt.Sprintf("match %s with None => None | Some %s => %s end", scrut(ps[i].term), ps[i].name, opt)
				}
				if z.Op == token.LAND {
					return x.partial("if " + a + " then " + opt + " else Some false")
				}
				return x.partial("if " + a + " then Some true else " + opt)
			}
			if z.Op == token.LAND {
				return "(" + a + " && " + b + ")"
			}
			return "(" + a + " || " + b + ")"
		case token.EQL, token.NEQ:
			var eq string
			switch k {
			case "Z":
				eq = "(" + a + " =? " + b + ")"
			case "bool":
				eq = "(Bool.eqb " + a + " " + b + ")"
			case "bytes":
				eq = "(bytes_eqb " + a + " " + b + ")"
			case "err":
				eq = "(err_eqb " + a + " " + b + ")"
			default:
				if src(z.Y) == "nil" {
					eq = "(is_nil " + a + ")"
				} else {
					x.bad(z, "comparison of unsupported type")
				}
			}
			if z.Op == token.NEQ {
				return "(negb " + eq + ")"
			}
			return eq
		}
		if x.t.strict && k == "bytes" {
			if z.Op == token.ADD {
				return "(" + a + " ++ " + b + ")"
			}
			x.bad(z, "string operator outside the fragment")
		}
		if x.t.strict && k != "Z" {
			x.bad(z, "arithmetic on a type outside the fragment")
		}
		switch z.Op {
		case token.LSS:
			return "(" + a + " <? " + b + ")"
		case token.LEQ:
			return "(" + a + " <=? " + b + ")"
		case token.GTR:
			return "(" + b + " <? " + a + ")"
		case token.GEQ:
			return "(" + b + " <=? " + a + ")"
		case token.AND:
			return "(Z.land " + a + " " + b + ")"
		case token.OR:
			return "(Z.lor " + a + " " + b + ")"
		case token.ADD:
			return "(" + a + " + " + b + ")"
		case token.SUB:
			return "(" + a + " - " + b + ")"
		case token.MUL:
			if x.t.strict {
				return "(" + a + " * " + b + ")"
			}
		}
	case *ast.SliceExpr:
		if x.t.strict && !z.Slice3 && x.kindOf(z.X) == "gslice" {
			// a byte slice is (visible part, spare capacity): re-slicing can reach into the spare part
			b := paren(x.expr(z.X))
			switch {
			case z.Low == nil && z.High != nil:
				return x.partial("sl_to " + b + " " + paren(x.expr(z.High)))
			case z.Low != nil && z.High == nil:
				return x.partial("sl_from " + b + " " + paren(x.expr(z.Low)))
			case z.Low != nil && z.High != nil:
				return x.partial("sl_range " + b + " " + paren(x.expr(z.Low)) + " " + paren(x.expr(z.High)))
			}
		}
		// l[a:] on a list (a slice whose capacity does not matter): panics outside 0..len(l)
		if x.t.strict && z.Low != nil && z.High == nil && !z.Slice3 && strings.HasPrefix(x.kindOf(z.X), "list ") && x.kindOf(z.Low) == "Z" {
			return x.partial("list_from " + paren(x.expr(z.X)) + " " + paren(x.expr(z.Low)))
		}
		// t[:n] / t[n:] on a string: panics outside 0..len(t)
		if x.t.strict && z.Low == nil && z.High != nil && !z.Slice3 && x.kindOf(z.X) == "bytes" && x.kindOf(z.High) == "Z" {
			return x.partial("str_prefix " + paren(x.expr(z.X)) + " " + paren(x.expr(z.High)))
		}
		if x.t.strict && z.Low != nil && z.High == nil && !z.Slice3 && x.kindOf(z.X) == "bytes" && x.kindOf(z.Low) == "Z" {
			return x.partial("str_suffix " + paren(x.expr(z.X)) + " " + paren(x.expr(z.Low)))
		}
		if x.t.strict && z.Low != nil && z.High != nil && !z.Slice3 && x.kindOf(z.X) == "bytes" && x.kindOf(z.Low) == "Z" && x.kindOf(z.High) == "Z" {
			return x.partial("str_slice " + paren(x.expr(z.X)) + " " + paren(x.expr(z.Low)) + " " + paren(x.expr(z.High)))
		}
	case *ast.IndexExpr:
		if x.t.strict && strings.HasPrefix(x.kindOf(z.X), "list ") && x.kindOf(z.Index) == "Z" {
			return x.partial("list_at " + paren(x.expr(z.X)) + " " + paren(x.expr(z.Index))) // panics outside 0..len-1
		}
		if mk := x.exprKind(z.X); x.t.strict && strings.HasPrefix(mk, "gomapB ") && x.kindOf(z.Index) == "bytes" {
			// m[k] as a value: the zero value when k is missing (or the map nil)
			return "(mapB_get_or " + x.expr(z.X) + " " + paren(x.expr(z.Index)) + " " + x.zeroOfKind(mk[7:], z) + ")"
		}
		if x.t.strict && x.kindOf(z.X) == "gslice" && x.kindOf(z.Index) == "Z" {
			return x.partial("sl_at " + paren(x.expr(z.X)) + " " + paren(x.expr(z.Index)))
		}
		// s[i] on a string: the byte as a number; panics outside 0..len(s)-1
		if x.t.strict && x.kindOf(z.X) == "bytes" && x.kindOf(z.Index) == "Z" {
			return x.partial("str_at " + paren(x.expr(z.X)) + " " + paren(x.expr(z.Index)))
		}
		// a[i] on a package-level array given by a keyed literal: the table binder m_<name> holds the
		// keyed elements, the others are the zero value; panics outside 0..len(a)-1
		if x.t.strict && x.kindOf(z.Index) == "Z" {
			if name := x.pkgVar(z.X); name != "" {
				if at, ok := x.p.TypesInfo.TypeOf(z.X).Underlying().(*types.Array); ok {
					if ek := x.coqType(at.Elem()); ek != "?" {
						return x.partial(fmt.Sprintf("arr_get %d %s %s %s", at.Len(), x.use("m_"+name), x.zeroOfKind(ek, z), paren(x.expr(z.Index))))
					}
				}
			}
		}
	case *ast.CallExpr:
		key := x.callKey(z)
		if cs, ok := x.t.calls[key]; ok {
			if cs.pure == "" {
				x.bad(z, "call with effects inside an expression")
			}
			// the arguments are evaluated once, in order, whether or not the rendering shows them
			// (operations among them that can panic are hoisted like everywhere else)
			if z.Ellipsis != token.NoPos && !cs.spread {
				x.bad(z, "call with a spread argument")
			}
			if cs.check != nil {
				if why := cs.check(x, z); why != "" {
					x.bad(z, why)
				}
			}
			var args []string
			if !cs.lazy {
				args = make([]string, len(z.Args))
				for i, a := range z.Args {
					args[i] = x.expr(a)
				}
			}
			t := x.fillWith(cs.pure, z, args)
			if cs.partial {
				return x.partial(t)
			}
			return "(" + t + ")"
		}
		if x.t.strict {
			switch key {
			case "fmt.Sprintf":
				return x.sprintf(z)
			case "strings.Repeat":
				if len(z.Args) == 2 {
					return x.partial("str_repeat " + paren(x.expr(z.Args[0])) + " " + paren(x.expr(z.Args[1])))
				}
			case "append":
				if x.kindOf(z.Args[0]) == "hslice" && len(z.Args) == 2 && z.Ellipsis != token.NoPos && x.kindOf(z.Args[1]) == "hslice" {
					// append(a, b...): the cells of b are read first, then written after a (in place when they fit)
					a, b := x.expr(z.Args[0]), x.expr(z.Args[1])
					return x.letPair(fmt.Sprintf("h_append_all %s %s %s (h_read %s %s)", x.use("f_growcap"), x.use("heap_"), paren(a), x.use("heap_"), paren(b)), "heap_")
				}
				if x.kindOf(z.Args[0]) == "hslice" && len(z.Args) == 2 && z.Ellipsis == token.NoPos {
					// on heap cells append writes into the spare capacity of the SAME array when there is some
					a, e := x.expr(z.Args[0]), x.expr(z.Args[1])
					return x.letPair(fmt.Sprintf("h_append %s %s %s %s", x.use("f_growcap"), x.use("heap_"), paren(a), paren(e)), "heap_")
				}
				// append(a, b...) / append(a, x, y): the value; the translation has no aliasing to lose
				if k := x.kindOf(z.Args[0]); k == "bytes" && len(z.Args) >= 2 {
					a := x.expr(z.Args[0])
					if z.Ellipsis != token.NoPos {
						if len(z.Args) == 2 && x.kindOf(z.Args[1]) == "bytes" {
							return "(" + a + " ++ " + x.expr(z.Args[1]) + ")"
						}
					} else {
						var els []string
						for _, e := range z.Args[1:] {
							bt, _ := x.p.TypesInfo.TypeOf(e).Underlying().(*types.Basic)
							if bt == nil || (bt.Kind() != types.Uint8 && bt.Kind() != types.UntypedRune && bt.Kind() != types.UntypedInt) {
								x.bad(z, "append of something that is not a byte")
							}
							els = append(els, "zb "+paren(x.expr(e))) // a byte-typed expression is in 0..255
						}
						return "(" + a + " ++ [" + strings.Join(els, "; ") + "])"
					}
				}
				if k := x.kindOf(z.Args[0]); strings.HasPrefix(k, "list ") && len(z.Args) >= 2 {
					a := x.expr(z.Args[0])
					if z.Ellipsis != token.NoPos {
						if len(z.Args) == 2 && x.kindOf(z.Args[1]) == k {
							return "(" + a + " ++ " + x.expr(z.Args[1]) + ")"
						}
					} else {
						var els []string
						for _, e := range z.Args[1:] {
							if "list "+paren(x.kindOf(e)) != k && "list "+x.kindOf(e) != k {
								x.bad(z, "append of an element of another translated type")
							}
							els = append(els, x.expr(e))
						}
						return "(" + a + " ++ [" + strings.Join(els, "; ") + "])"
					}
				}
			case "strings.ToLower":
				if len(z.Args) == 1 {
					return "(to_lower " + x.expr(z.Args[0]) + ")"
				}
			case "make":
				if x.kindOf(z) == "gslice" && len(z.Args) == 3 && x.kindOf(z.Args[1]) == "Z" && x.kindOf(z.Args[2]) == "Z" {
					return x.partial("sl_make " + paren(x.expr(z.Args[1])) + " " + paren(x.expr(z.Args[2])))
				}
				if x.kindOf(z) == "hslice" && len(z.Args) == 3 && x.kindOf(z.Args[1]) == "Z" && x.kindOf(z.Args[2]) == "Z" {
					r := x.partial(fmt.Sprintf("h_make_cap %s %s %s %s", x.use("heap_"), paren(x.expr(z.Args[1])), paren(x.expr(z.Args[2])), x.use("h_zero")))
					return x.letPair(r, "heap_")
				}
				if x.kindOf(z) == "hslice" && len(z.Args) == 2 && x.kindOf(z.Args[1]) == "Z" {
					r := x.partial(fmt.Sprintf("h_make %s %s %s", x.use("heap_"), paren(x.expr(z.Args[1])), x.use("h_zero")))
					return x.letPair(r, "heap_")
				}
				if _, isMap := x.p.TypesInfo.TypeOf(z).Underlying().(*types.Map); isMap && len(z.Args) == 1 {
					if k := x.kindOf(z); strings.HasPrefix(k, "map ") {
						return "(Some (@nil (Z * " + paren(k[4:]) + ")))" // a map value is never nil again; only a field can take it
					} else if strings.HasPrefix(k, "mapB ") {
						return "(Some (@nil (bytes * " + paren(k[5:]) + ")))"
					}
				}
			case "copy":
				return x.copyCall(z)
			case "len", "cap":
				if x.kindOf(z.Args[0]) == "hslice" && key == "len" {
					return "(h_len " + x.expr(z.Args[0]) + ")"
				}
				if x.kindOf(z.Args[0]) == "gslice" {
					return "(sl_" + key + " " + x.expr(z.Args[0]) + ")"
				}
				if key == "cap" {
					break
				}
				if k := x.kindOf(z.Args[0]); k == "bytes" || strings.HasPrefix(k, "list ") {
					return "(Z.of_nat (List.length " + x.expr(z.Args[0]) + "))"
				}
			}
			if tv, ok := x.p.TypesInfo.Types[z.Fun]; ok && tv.IsType() && len(z.Args) == 1 && x.kindOf(z.Args[0]) == "gslice" && x.coqType(tv.Type) == "bytes" {
				return "(sl_bytes " + x.expr(z.Args[0]) + ")" // string(b)
			}
			if tv, ok := x.p.TypesInfo.Types[z.Fun]; ok && tv.IsType() && len(z.Args) == 1 && x.t.strict && x.kindOf(z.Args[0]) == "bytes" && x.coqType(tv.Type) == "bytes" {
				return x.expr(z.Args[0]) // string(b) / []byte(s) where both are byte strings of the model (a copy: values)
			}
			if tv, ok := x.p.TypesInfo.Types[z.Fun]; ok && tv.IsType() && len(z.Args) == 1 {
				// conversion T(x) between integer types: the identity on Z (DESIGN.md 2.1: int, Level,
				// Flags are unbounded), but only where Go cannot wrap: to int / int64 or to a type of the
				// same underlying kind as the argument
				if b, ok := tv.Type.Underlying().(*types.Basic); ok && x.coqType(tv.Type) == "Z" && x.kindOf(z.Args[0]) == "Z" {
					ab, _ := x.p.TypesInfo.TypeOf(z.Args[0]).Underlying().(*types.Basic)
					if ab != nil && ab.Kind() == b.Kind() {
						return x.expr(z.Args[0])
					}
					// into a wider or equal range: the identity; into an unsigned type: modulo 2^bits
					// (uint / uintptr are 64 bits: amd64 / arm64); a narrowing signed conversion is rejected
					ds, dbits := intBits(b)
					if ab != nil && dbits > 0 {
						ss, sbits := intBits(ab)
						if sbits > 0 && ((ss == ds && sbits <= dbits) || (!ss && ds && sbits < dbits)) {
							return x.expr(z.Args[0])
						}
						if !ds {
							return fmt.Sprintf("(%s mod %d)", x.expr(z.Args[0]), new(big.Int).Lsh(big.NewInt(1), uint(dbits)))
						}
						// into a narrower signed type: two's complement wrap
						half := new(big.Int).Lsh(big.NewInt(1), uint(dbits-1))
						return fmt.Sprintf("((%s + %d) mod %d - %d)", x.expr(z.Args[0]), half, new(big.Int).Lsh(big.NewInt(1), uint(dbits)), half)
					}
				}
			}
			if x.t.auto {
				if t := x.autoCall(z); t != "" {
					return t
				}
			}
			x.bad(z, "call outside the fragment ("+key+")")
		}
		s := src(z)
		switch {
		case s == "states.Env().GetDebugMode()" || s == "is.DebugMode()":
			return x.use("g_debugmode")
		case s == "is.TraceMode()":
			return x.use("g_tracemode")
		}
		name := calleeName(z)
		switch name {
		case "IsAnyBitsSet":
			return "(negb (Z.land " + x.use("g_flags") + " " + x.expr(z.Args[0]) + " =? 0))"
		case "IsAllBitsSet":
			a := x.expr(z.Args[0])
			return "(Z.land " + x.use("g_flags") + " " + a + " =? " + a + ")"
		case "Level":
			if len(z.Args) == 0 {
				if se, ok := z.Fun.(*ast.SelectorExpr); ok {
					return x.use(sanitize(src(se.X)) + "_level")
				}
			}
			if len(z.Args) == 1 {
				return x.expr(z.Args[0]) // conversion Level(x)
			}
		case "EnabledContext", "Enabled":
			return "(" + x.use("f_enabled") + " " + x.expr(z.Args[len(z.Args)-1]) + ")"
		case "int", "int64", "uint64", "Flags":
			if len(z.Args) == 1 {
				return x.expr(z.Args[0])
			}
		case "len":
			return "(Z.of_nat (length " + x.expr(z.Args[0]) + "))"
		}
	}
	x.bad(e, "expression outside the fragment")
	return ""
}

// stateWrite: a write to something that outlives the call (a field of the receiver, a package-level
// variable, the target of a pointer) is only translated if the target hands that binder back - in its
// final expression or as threaded effect state; otherwise the write would be lost silently
func (x *tr) stateWrite(lhs ast.Expr, nm string) {
	if _, isLocal := lhs.(*ast.Ident); isLocal && !strings.HasPrefix(nm, "g_") && !strings.HasPrefix(nm, "m_") {
		return
	}
	for _, e := range x.t.effects {
		if e == nm {
			return
		}
	}
	isId := func(c byte) bool {
		return c == '_' || c == '\'' || c >= '0' && c <= '9' || c >= 'a' && c <= 'z' || c >= 'A' && c <= 'Z'
	}
	f := x.t.final
	for i := 0; i+len(nm) <= len(f); i++ {
		if f[i:i+len(nm)] == nm && (i == 0 || !isId(f[i-1])) && (i+len(nm) == len(f) || !isId(f[i+len(nm)])) {
			return
		}
	}
	x.bad(lhs, "write to state that the target does not return ("+nm+")")
}

// deref: *p where p is a pointer parameter the target threads through as state (its pointee is the
// binder of that name; the pointer itself is only ever passed on to declared calls)
func (x *tr) deref(z *ast.StarExpr) (string, bool) {
	if !x.t.strict {
		return "", false
	}
	id, ok := z.X.(*ast.Ident)
	if !ok {
		return "", false
	}
	obj, _ := x.p.TypesInfo.Uses[id].(*types.Var)
	if obj == nil || x.fscope == nil || obj.Parent() != x.fscope {
		return "", false
	}
	if _, isPtr := obj.Type().Underlying().(*types.Pointer); !isPtr {
		return "", false
	}
	for _, e := range x.t.effects {
		if e == x.ident(id.Name) {
			return e, true
		}
	}
	return "", false
}

func (x *tr) lhsName(e ast.Expr) (string, bool) {
	switch z := e.(type) {
	case *ast.StarExpr:
		if nm, ok := x.deref(z); ok {
			return nm, true
		}
	case *ast.Ident:
		if z.Name == "_" {
			return "", false
		}
		if obj := x.p.TypesInfo.ObjectOf(z); obj != nil {
			if v, ok := obj.(*types.Var); ok && v.Parent() == x.p.Types.Scope() {
				return "g_" + z.Name, true
			}
		}
		return x.objName(x.p.TypesInfo.ObjectOf(z), z.Name), true
	case *ast.SelectorExpr:
		if x.t.strict {
			if id, ok := z.X.(*ast.Ident); !ok || id.Name != x.recv {
				x.bad(z, "assignment to a field of something that is not the receiver")
			}
		}
		return sanitize(src(z)), true
	}
	if x.t.strict {
		x.bad(e, "assignment target outside the fragment")
	}
	return "", false
}

func zeroOf(k string) string {
	switch k {
	case "Z":
		return "0"
	case "bool":
		return "false"
	case "bytes":
		return "(@nil byte)"
	}
	return "[]"
}

func (x *tr) zeroOfKind(k string, n ast.Node) string {
	if !x.t.strict {
		return zeroOf(k)
	}
	if v, ok := x.t.nils[k]; ok {
		return v
	}
	switch {
	case k == "Z":
		return "0"
	case k == "bool":
		return "false"
	case k == "bytes":
		return "(@nil byte)"
	case k == "error":
		return "err_nil"
	case strings.HasPrefix(k, "list "):
		return "(@nil " + paren(k[5:]) + ")"
	case strings.HasPrefix(k, "map "):
		return "(@nil (Z * " + paren(k[4:]) + "))"
	case strings.HasPrefix(k, "option "):
		return "(@None " + paren(k[7:]) + ")"
	case strings.HasPrefix(k, "gomap "):
		return "(@None (list (Z * " + paren(k[6:]) + ")))"
	case strings.HasPrefix(k, "gomapB "):
		return "(@None (list (bytes * " + paren(k[7:]) + ")))"
	}
	x.bad(n, "zero value of a type outside the fragment ("+k+")")
	return ""
}

// assigned collects the names assigned anywhere in the statements
func (x *tr) assigned(stmts []ast.Stmt) []string {
	seen := map[string]bool{}
	var out []string
	for _, s := range stmts {
		ast.Inspect(s, func(n ast.Node) bool {
			if as, ok := n.(*ast.AssignStmt); ok {
				for _, l := range as.Lhs {
					if nm, ok := x.lhsName(l); ok && !seen[nm] {
						seen[nm] = true
						out = append(out, nm)
					}
				}
			}
			return true
		})
	}
	return out
}

// outerAssigned (strict): names assigned in the statements whose variable is declared outside of
// them, in order of first assignment, followed by the effect-state binders if an effect occurs inside
func (x *tr) outerAssigned(stmts []ast.Stmt) []string {
	if len(stmts) == 0 {
		return nil
	}
	return x.outerAssignedIn(stmts, stmts[0].Pos(), stmts[len(stmts)-1].End())
}

// outerAssignedIn: the same, "declared inside" meaning declared between lo and hi
func (x *tr) outerAssignedIn(stmts []ast.Stmt, lo, hi token.Pos) []string {
	seen := map[string]bool{}
	var out []string
	pos := map[string]token.Pos{}
	add := func(l ast.Expr) {
		if x.ignorable(l) {
			return
		}
		if ie, ok := l.(*ast.IndexExpr); ok {
			// m[k] = v / m[i][k] = v on a package-level map, v[i] = c on a tracked slice
			base := ie.X
			if inner, ok := base.(*ast.IndexExpr); ok {
				base = inner.X
			}
			nm := ""
			if name := x.pkgVar(base); name != "" {
				nm = "m_" + name
			} else if v, ok := x.sliceVar(base); ok {
				nm = v
			}
			if nm != "" && !seen[nm] {
				seen[nm] = true
				out = append(out, nm)
			}
			return
		}
		var at token.Pos
		if id, ok := l.(*ast.Ident); ok {
			if id.Name == "_" {
				return
			}
			obj := x.p.TypesInfo.ObjectOf(id)
			if obj == nil || x.ignored[obj] {
				return
			}
			if obj.Pos() >= lo && obj.Pos() < hi {
				return // declared inside
			}
			at = obj.Pos()
		}
		if nm, ok := x.lhsName(l); ok && !seen[nm] {
			seen[nm] = true
			pos[nm] = at
			out = append(out, nm)
		}
	}
	effect := false
	for _, s := range stmts {
		ast.Inspect(s, func(n ast.Node) bool {
			switch z := n.(type) {
			case *ast.AssignStmt:
				for _, l := range z.Lhs {
					add(l)
				}
			case *ast.IncDecStmt:
				add(z.X)
			case *ast.ReturnStmt:
				if len(z.Results) > 0 && len(x.loops) >= 0 {
					for _, nm := range x.named {
						if !seen[nm] {
							seen[nm] = true
							pos[nm] = x.namedPos[nm]
							out = append(out, nm)
						}
					}
				}
			case *ast.CallExpr:
				if cs, ok := x.t.calls[x.callKey(z)]; ok && (cs.ev != "" || cs.tick || cs.state != "" || cs.tail != "") {
					effect = true
				}
				// allocation and writes on heap cells rebind heap_
				if k := x.callKey(z); (k == "make" || k == "append" || k == "copy") && x.hasHeap() {
					effect = true
				}
			case *ast.CompositeLit:
				if x.hasHeap() && x.kindOf(z) == "hslice" {
					effect = true
				}
			}
			return true
		})
	}
	// canonical order: fields first, then variables in the order of their declarations (so that
	// reordering statements does not change the shape of the generated state)
	sort.SliceStable(out, func(i, j int) bool { return pos[out[i]] < pos[out[j]] })
	if effect {
		for _, e := range x.t.effects {
			if !seen[e] {
				seen[e] = true
				out = append(out, e)
			}
		}
	}
	return out
}

// abrupt: can the statements end other than by running off their end?
func (x *tr) abrupt(stmts []ast.Stmt) bool {
	found := false
	for _, s := range stmts {
		ast.Inspect(s, func(n ast.Node) bool {
			switch z := n.(type) {
			case *ast.ReturnStmt, *ast.BranchStmt, *ast.GoStmt, *ast.DeferStmt, *ast.FuncLit, *ast.LabeledStmt, *ast.SelectStmt, *ast.ForStmt:
				found = true // (a three-clause loop can run out of its declared fuel: that ends the function like a panic)
			case *ast.CallExpr:
				switch key := x.callKey(z); key {
				case "panic", "os.Exit", "strings.Repeat", "copy":
					found = true
				default:
					if cs, ok := x.t.calls[key]; ok && (cs.tail != "" || cs.partial || cs.bres) {
						found = true // (a callee that can panic ends this function too)
					}
				}
			case *ast.SliceExpr:
				found = true // an operation that can panic ends the whole function, not just the statement
			case *ast.IndexExpr:
				if _, isMap := x.p.TypesInfo.TypeOf(z.X).Underlying().(*types.Map); !isMap {
					found = true
				}
			}
			return true
		})
	}
	return found
}

func hasReturn(stmts []ast.Stmt) bool {
	found := false
	for _, s := range stmts {
		ast.Inspect(s, func(n ast.Node) bool {
			if _, ok := n.(*ast.ReturnStmt); ok {
				found = true
			}
			return true
		})
	}
	return found
}

func (x *tr) ignorable(lhs ast.Expr) bool {
	if x.t.only == nil {
		return false
	}
	if se, ok := lhs.(*ast.SelectorExpr); ok {
		if id, ok := se.X.(*ast.Ident); ok && id.Name == x.recv {
			return !x.t.only[se.Sel.Name]
		}
	}
	return false
}

func elseList(z *ast.IfStmt) []ast.Stmt {
	if b, ok := z.Else.(*ast.BlockStmt); ok {
		return b.List
	} else if z.Else != nil {
		return []ast.Stmt{z.Else}
	}
	return nil
}

func cat(a []ast.Stmt, b []ast.Stmt) []ast.Stmt { return append(append([]ast.Stmt{}, a...), b...) }

// effectCall renders a call statement / call assignment with a declared rendering.
// lhs: the Coq names receiving the results (may be empty).
func (x *tr) effectCall(c *ast.CallExpr, cs callSpec, lhs []string, n ast.Node, tail func() string) string {
	if cs.check != nil && cs.pure == "" {
		if why := cs.check(x, c); why != "" {
			x.bad(c, why)
		}
	}
	if c.Ellipsis != token.NoPos && !cs.spread {
		x.bad(c, "call with a spread argument")
	}
	amark := len(x.pending)
	args := make([]string, len(c.Args))
	for i, a := range c.Args {
		if cs.lazy && !strings.Contains(cs.ev+cs.res+cs.state, fmt.Sprintf("%%%d", i)) {
			x.notes = append(x.notes, "argument not kept by the model (declared): "+clip(src(a)))
			continue // a lazy declaration: the arguments its rendering does not mention feed something the model does not keep
		}
		args[i] = x.expr(a) // every argument must be in the fragment, also the ones the rendering drops
	}
	if len(x.pending) > amark {
		inner := tail
		return x.hoistStmt(amark, func() string { return x.effectCallWith(c, cs, lhs, n, args, inner) })
	}
	return x.effectCallWith(c, cs, lhs, n, args, tail)
}

func (x *tr) effectCallWith(c *ast.CallExpr, cs callSpec, lhs []string, n ast.Node, args []string, tail func() string) string {
	if se, ok := c.Fun.(*ast.SelectorExpr); ok {
		if _, isSel := x.p.TypesInfo.Selections[se]; isSel && x.pkgVar(se.X) == "" {
			if id, ok := se.X.(*ast.Ident); !ok || id.Name != x.recv { // (a method of the receiver itself: the declaration says what it reads)
				x.expr(se.X) // the receiver must be in the fragment too
			}
		}
	}
	switch {
	case cs.ignore:
		if len(lhs) > 0 {
			x.bad(n, "result of a call declared as without tracked effect is used")
		}
		x.notes = append(x.notes, "no tracked effect (declared): "+clip(src(n)))
		return tail()
	case cs.state != "":
		if cs.ignoreRes && len(lhs) == 0 {
			lhs = []string{"_"}
		}
		names := append(append([]string{}, lhs...), x.t.effects...)
		if cs.bres {
			// the callee returns a bres over (a part of) the effect state: a panic of the callee is a panic
			// of this function, with the state the callee left behind
			back := "let '" + patTuple(cs.sub) + " := st_ in "
			if len(cs.sub) == 1 {
				back = "let " + cs.sub[0] + " := st_ in "
			}
			if len(cs.sub) == 0 {
				back = "" // an oracle without state of its own
			}
			resPat := "_"
			if len(lhs) > 0 {
				resPat = "r_"
			}
			body := x.bind(append(append([]string{}, lhs...), cs.sub...), tail)
			open := back
			if len(lhs) > 0 {
				if len(lhs) == 1 {
					open += "let " + lhs[0] + " := r_ in "
				} else {
					open += "let '" + patTuple(lhs) + " := r_ in "
				}
			}
			st := tuple(x.t.effects)
			return fmt.Sprintf("match %s with\n  | BOk %s st_ => %s\n  %s\n  | BRange st_ => %s%s\n  | BPanic p_ st_ => %s%s\n  end",
				x.fillWith(cs.state, c, args), resPat, open, body, back, x.endB("BRange "+st), back, x.endB("BPanic p_ "+st))
		}
		if cs.partial {
			// the callee can panic (None): that ends this function too
			return fmt.Sprintf("match %s with\n  | None => %s\n  | Some %s => %s\n  end",
				x.fillWith(cs.state, c, args), x.panicTerm(), patTuple(names), x.bind(names, tail))
		}
		return x.letTuple(names, x.fillWith(cs.state, c, args), tail)
	case cs.pure != "":
		if len(lhs) == 0 {
			x.bad(n, "value of a pure call is dropped")
		}
		mark := len(x.pending)
		t := x.expr(c)
		return x.hoistStmt(mark, func() string { return x.letTuple(lhs, t, tail) })
	case cs.tail != "":
		x.bad(n, "call declared as a tail call where its result is used")
	}
	// res / ev / tick
	var f func() string
	f = func() string {
		g := tail
		if cs.tick {
			h := g
			g = func() string { return x.let("k_", "S k_", h) }
		}
		if cs.ev != "" {
			h := g
			ev := x.fillWith(cs.ev, c, args)
			g = func() string { return x.let("tr_", "tr_ ++ ["+ev+"]", h) }
		}
		return g()
	}
	if cs.res != "" {
		if len(lhs) == 0 {
			// results dropped by the caller: still an attempt
			return f()
		}
		return x.letTuple(lhs, x.fillWith(cs.res, c, args), f)
	}
	if len(lhs) > 0 {
		x.bad(n, "result of a call whose declaration has no result")
	}
	return f()
}

func (x *tr) hoistStmt(mark int, body func() string) string {
	x.hoistDone(mark)
	return x.hoist(mark, body)
}

// results renders the values of a return statement
func (x *tr) results(z *ast.ReturnStmt) string {
	if len(z.Results) == 0 {
		return x.t.final
	}
	if id, ok := z.Results[0].(*ast.Ident); ok && id.Name == x.recv && !x.t.strict {
		return x.t.final
	}
	mark := len(x.pending)
	var parts []string
	for i, r := range z.Results {
		if id, ok := r.(*ast.Ident); ok && id.Name == "nil" && x.t.strict {
			// an untyped nil takes the type of the result it is returned as
			sig := x.p.TypesInfo.Defs[x.fd.Name].Type().(*types.Signature)
			if sig.Results().Len() != len(z.Results) {
				x.bad(z, "return form")
			}
			parts = append(parts, x.nilOf(x.coqType(sig.Results().At(i).Type()), r))
			continue
		}
		parts = append(parts, x.expr(r))
	}
	if x.t.okfmt != "" {
		var effs []string
		for _, e := range x.t.effects {
			effs = append(effs, x.use(e))
		}
		v := x.endB(fmt.Sprintf(x.t.okfmt, tuple(parts), tuple(effs)))
		return x.hoistStmt(mark, func() string { return v })
	}
	if x.t.strict {
		for _, e := range x.t.effects {
			parts = append(parts, x.use(e))
		}
	}
	v := parts[0]
	if len(parts) > 1 {
		v = "(" + strings.Join(parts, ", ") + ")"
	}
	if x.t.retfmt != "" {
		v = fmt.Sprintf(x.t.retfmt, v)
	}
	if !x.t.strict {
		return v
	}
	return x.hoistStmt(mark, func() string { return v })
}

func (x *tr) seq(stmts []ast.Stmt, k func() string) string {
	if len(stmts) == 0 {
		return k()
	}
	s := stmts[0]
	rest := stmts[1:]
	tail := func() string { return x.seq(rest, k) }

	// join point (strict): a statement that can only complete normally, followed by more
	// statements, becomes `let (assigned) := <statement> in <rest>` instead of copying the rest
	if x.t.strict && len(rest) > 0 {
		switch s.(type) {
		case *ast.IfStmt, *ast.SwitchStmt:
			if !x.abrupt([]ast.Stmt{s}) {
				if vars := x.outerAssigned([]ast.Stmt{s}); len(vars) > 0 {
					for _, v := range vars {
						x.use(v) // every joined variable must already have a value
					}
					val := x.seq([]ast.Stmt{s}, func() string { return tuple(vars) })
					return x.letTuple(vars, val, tail)
				}
			}
		}
	}

	switch z := s.(type) {
	case *ast.EmptyStmt:
		return tail()
	case *ast.BlockStmt:
		return x.seq(cat(z.List, rest), k)
	case *ast.DeclStmt:
		gd := z.Decl.(*ast.GenDecl)
		if gd.Tok == token.VAR {
			if !x.t.strict {
				out := ""
				for _, sp := range gd.Specs {
					vs := sp.(*ast.ValueSpec)
					for i, n := range vs.Names {
						val := ""
						if i < len(vs.Values) {
							val = x.expr(vs.Values[i])
						} else {
							val = zeroOf(kindOfType(x.p.TypesInfo.Defs[n].Type()))
						}
						out += fmt.Sprintf("let %s := %s in\n  ", n.Name, val)
					}
				}
				return out + tail()
			}
			type dv struct{ nm, val string }
			var ds []dv
			mark := len(x.pending)
			for _, sp := range gd.Specs {
				vs := sp.(*ast.ValueSpec)
				if len(vs.Values) != 0 && len(vs.Values) != len(vs.Names) {
					x.bad(z, "declaration form")
				}
				for i, n := range vs.Names {
					if n.Name == "_" {
						x.bad(z, "declaration form")
					}
					val := ""
					if i < len(vs.Values) {
						val = x.expr(vs.Values[i])
					} else {
						val = x.zeroOfKind(x.coqType(x.p.TypesInfo.Defs[n].Type()), n)
					}
					ds = append(ds, dv{x.objName(x.p.TypesInfo.Defs[n], n.Name), val})
				}
			}
			var f func(i int) string
			f = func(i int) string {
				if i == len(ds) {
					return tail()
				}
				return x.let(ds[i].nm, ds[i].val, func() string { return f(i + 1) })
			}
			return x.hoistStmt(mark, func() string { return f(0) })
		}
	case *ast.IncDecStmt:
		if x.t.strict {
			nm, _ := x.lhsName(z.X)
			op := " + 1"
			if z.Tok == token.DEC {
				op = " - 1"
			}
			if x.kindOf(z.X) != "Z" {
				x.bad(z, "increment of a non-integer")
			}
			x.stateWrite(z.X, nm)
			return x.let(nm, "("+x.use(nm)+op+")", tail)
		}
	case *ast.AssignStmt:
		if x.t.strict {
			return x.assignStrict(z, tail)
		}
		if len(z.Lhs) == 1 && len(z.Rhs) == 1 {
			if x.ignorable(z.Lhs[0]) {
				x.notes = append(x.notes, "ignored (untracked field): "+clip(src(z)))
				return tail()
			}
			nm, ok := x.lhsName(z.Lhs[0])
			if !ok {
				return tail()
			}
			rhs := ""
			switch z.Tok {
			case token.ASSIGN, token.DEFINE:
				rhs = x.expr(z.Rhs[0])
			case token.OR_ASSIGN:
				rhs = "(Z.lor " + x.use(nm) + " " + x.expr(z.Rhs[0]) + ")"
			default:
				x.bad(z, "assignment operator")
			}
			return fmt.Sprintf("let %s := %s in\n  %s", nm, rhs, tail())
		}
		if len(z.Lhs) == len(z.Rhs) && len(z.Lhs) >= 2 && (z.Tok == token.ASSIGN || z.Tok == token.DEFINE) {
			// parallel assignment a, b, ... = x, y, ...: the right-hand sides are evaluated first;
			// untracked fields on the left are dropped with their (pure) right-hand sides
			var names, vals []string
			okAll := true
			for i := range z.Lhs {
				if x.ignorable(z.Lhs[i]) {
					continue
				}
				nm, ok := x.lhsName(z.Lhs[i])
				if !ok {
					okAll = false
					break
				}
				names = append(names, nm)
				vals = append(vals, x.expr(z.Rhs[i]))
			}
			if okAll {
				switch len(names) {
				case 0:
					x.notes = append(x.notes, "ignored (untracked fields): "+clip(src(z)))
					return tail()
				case 1:
					return fmt.Sprintf("let %s := %s in\n  %s", names[0], vals[0], tail())
				default:
					pat, tup := names[0], vals[0]
					for i := 1; i < len(names); i++ {
						pat, tup = "("+pat+", "+names[i]+")", "("+tup+", "+vals[i]+")"
					}
					return fmt.Sprintf("let '%s := %s in\n  %s", pat, tup, tail())
				}
			}
		}
		x.bad(z, "assignment form")
	case *ast.ReturnStmt:
		if !x.t.strict {
			if len(z.Results) == 0 {
				return x.t.final
			}
			if id, ok := z.Results[0].(*ast.Ident); ok && id.Name == x.recv {
				return x.t.final
			}
			if len(z.Results) == 1 {
				return x.expr(z.Results[0])
			}
			var parts []string
			for _, r := range z.Results {
				parts = append(parts, x.expr(r))
			}
			return "(" + strings.Join(parts, ", ") + ")"
		}
		if len(x.loops) > 0 && x.bresLoop > 0 {
			return x.results(z) // LbEnd (BOk results state)
		}
		if len(x.loops) > 0 {
			// return inside a loop: Go assigns the values to the named results, the fold stops and
			// the function ends with them
			lc := x.loops[len(x.loops)-1]
			if lc.retv != nil && len(z.Results) > 0 {
				mark := len(x.pending)
				var vals []string
				for _, r := range z.Results {
					vals = append(vals, x.expr(r))
				}
				return x.hoistStmt(mark, func() string { return lc.retv(tuple(vals)) })
			}
			if lc.ret == nil || (len(z.Results) > 0 && len(z.Results) != len(x.named)) {
				x.bad(z, "return inside a loop of a function without named results")
			}
			if len(z.Results) == 0 {
				return lc.ret()
			}
			mark := len(x.pending)
			var vals []string
			for _, r := range z.Results {
				vals = append(vals, x.expr(r))
			}
			return x.hoistStmt(mark, func() string { return x.letTuple(x.named, tuple(vals), lc.ret) })
		}
		return x.results(z)
	case *ast.BranchStmt:
		if x.t.strict && z.Label == nil && len(x.loops) > 0 {
			lc := x.loops[len(x.loops)-1]
			switch {
			case z.Tok == token.CONTINUE:
				return lc.cont()
			case z.Tok == token.BREAK && lc.brk != nil:
				return lc.brk()
			}
		}
		x.bad(z, "branch statement outside the fragment")
	case *ast.ExprStmt:
		if c, ok := z.X.(*ast.CallExpr); ok {
			if x.t.strict {
				key := x.callKey(c)
				if cs, ok := x.t.calls[key]; ok && cs.unwrap && len(c.Args) == 1 {
					if inner, isCall := c.Args[0].(*ast.CallExpr); isCall {
						c, key = inner, x.callKey(inner)
					}
				}
				if cs, ok := x.t.calls[key]; ok {
					if cs.tail != "" {
						if !strings.Contains(cs.tail, "%") {
							x.checkArgs(c)
						}
						if len(x.loops) > 0 {
							x.bad(z, "tail call inside a loop")
						}
						if after := tail(); after != x.t.final {
							x.bad(z, "call declared as a tail call is followed by more work")
						}
						head := cs.tail
						if strings.Contains(head, "%") {
							// the constructor takes the arguments of the call (os.Exit(code), s.log1(lvl, msg, args...)): operations
							// among them that can panic are hoisted in front; a variadic call without variadic arguments passes nil
							if c.Ellipsis != token.NoPos && !cs.spread {
								x.bad(c, "call with a spread argument")
							}
							mark := len(x.pending)
							var args []string
							for _, a := range c.Args {
								args = append(args, paren(x.expr(a)))
							}
							if sig, ok := x.p.TypesInfo.TypeOf(c.Fun).(*types.Signature); ok && sig.Variadic() {
								if c.Ellipsis == token.NoPos && len(c.Args) > sig.Params().Len()-1 {
									x.bad(c, "variadic call with listed variadic arguments")
								}
								if len(c.Args) == sig.Params().Len()-1 {
									args = append(args, "[]")
								}
							}
							cc := *c
							for len(cc.Args) < len(args) {
								cc.Args = append(append([]ast.Expr{}, cc.Args...), c.Args[0]) // (positions only: the texts come from args)
							}
							return x.hoistStmt(mark, func() string {
								return "(" + x.fillWith(head, &cc, args) + " " + strings.Join(x.t.effects, " ") + ")"
							})
						}
						return "(" + head + " " + strings.Join(x.t.effects, " ") + ")"
					}
					return x.effectCall(c, cs, nil, z, tail)
				}
				switch key {
				case "copy":
					mark := len(x.pending)
					x.expr(c) // the count is dropped; the effect is the rebinding hoisted in front of the rest
					return x.hoistStmt(mark, tail)
				case "panic":
					if x.t.panicFmt != "" && len(c.Args) == 1 && (len(x.panics) == 0 || x.bresLoop > 0) && x.optLoop == 0 {
						mark := len(x.pending)
						a := x.expr(c.Args[0])
						x.noPending(mark, c)
						return x.endB(fmt.Sprintf(x.t.panicFmt, a))
					}
					x.checkArgs(c)
					return x.panicTerm()
				}
				x.bad(z, "call with unknown effect ("+key+")")
			}
			switch src(c.Fun) {
			case "panic":
				return "ActPanic"
			case "os.Exit":
				return "(ActExit " + x.expr(c.Args[0]) + ")"
			case "is.SetDebugMode":
				return fmt.Sprintf("let g_debugmode := %s in\n  %s", x.expr(c.Args[0]), tail())
			case "is.SetTraceMode":
				return fmt.Sprintf("let g_tracemode := %s in\n  %s", x.expr(c.Args[0]), tail())
			}
		}
		x.bad(z, "call with unknown effect")
	case *ast.IfStmt:
		if z.Init != nil {
			as, ok := z.Init.(*ast.AssignStmt)
			if ok && len(as.Lhs) == 2 && len(as.Rhs) == 1 {
				if ix, ok := as.Rhs[0].(*ast.IndexExpr); ok {
					return x.lookupIf(z, as, ix, rest, k)
				}
				if ta, ok := as.Rhs[0].(*ast.TypeAssertExpr); ok && x.t.strict && as.Tok == token.DEFINE {
					okn := src(as.Lhs[1])
					if c := src(z.Cond); c == okn || c == "!"+okn {
						return x.assertIf(z, as, ta, rest, k)
					}
				}
			}
			if x.t.strict {
				// if INIT; COND {..}  =  INIT; if COND {..}   (names are checked for shadowing, so the
				// wider scope of INIT's variables cannot capture anything)
				plain := *z
				plain.Init = nil
				return x.seq(cat([]ast.Stmt{z.Init, &plain}, rest), k)
			}
			x.bad(z, "if with init")
		}
		els := elseList(z)
		if x.t.strict {
			mark := len(x.pending)
			c := x.expr(z.Cond)
			return x.hoistStmt(mark, func() string {
				th := x.seq(cat(z.Body.List, rest), k)
				el := x.seq(cat(els, rest), k)
				return fmt.Sprintf("if %s\n  then %s\n  else %s", c, th, el)
			})
		}
		c := x.expr(z.Cond)
		th := x.seq(cat(z.Body.List, rest), k)
		el := x.seq(cat(els, rest), k)
		return fmt.Sprintf("if %s\n  then %s\n  else %s", c, th, el)
	case *ast.SwitchStmt:
		return x.switchStmt(z, rest, k)
	case *ast.ForStmt:
		if x.t.strict {
			if z.Init != nil {
				// for INIT; COND; POST {..}  =  INIT; for ; COND; POST {..}  (shadowing is handled by objName)
				plain := *z
				plain.Init = nil
				x.forIdx[&plain] = x.forIdx[z]
				return x.seq(cat([]ast.Stmt{z.Init, &plain}, rest), k)
			}
			return x.forStrict(z, tail)
		}
	case *ast.RangeStmt:
		if x.t.strict {
			return x.rangeStrict(z, tail)
		}
		if z.Value == nil {
			x.bad(z, "range form")
		}
		el := src(z.Value)
		coll := x.expr(z.X)
		as := x.assigned(z.Body.List)
		if hasReturn(z.Body.List) {
			// search loop: for _, v := range xs { if c { return e } }
			if len(z.Body.List) == 1 {
				if ifs, ok := z.Body.List[0].(*ast.IfStmt); ok && ifs.Init == nil && ifs.Else == nil && len(ifs.Body.List) == 1 {
					if rs, ok := ifs.Body.List[0].(*ast.ReturnStmt); ok {
						c := x.expr(ifs.Cond)
						delete(x.free, el)
						var parts []string
						for _, r := range rs.Results {
							if src(r) == "nil" {
								parts = append(parts, "None")
							} else if _, isCall := r.(*ast.CallExpr); isCall {
								parts = append(parts, "ErrVal")
							} else {
								parts = append(parts, x.expr(r))
							}
						}
						return fmt.Sprintf("if existsb (fun %s => %s) %s then %s\n  else %s", el, c, coll, strings.Join(parts, ", "), tail())
					}
				}
			}
			x.bad(z, "loop with return")
		}
		if len(as) != 1 {
			x.bad(z, "loop assigning other than one variable")
		}
		acc := as[0]
		body := x.seq(z.Body.List, func() string { return acc })
		delete(x.free, el)
		elk := "_"
		if k := x.kindOf(z.X); strings.HasPrefix(k, "list ") {
			elk = k[5:]
			if strings.Contains(elk, " ") {
				elk = "(" + elk + ")"
			}
		}
		return fmt.Sprintf("let %s := fold_left (fun %s (%s : %s) => %s) %s %s in\n  %s", acc, acc, el, elk, body, coll, x.use(acc), tail())
	}
	x.bad(s, "statement outside the fragment")
	return ""
}

// assignStrict: assignments of the second-generation targets
func (x *tr) assignStrict(z *ast.AssignStmt, tail func() string) string {
	// name := func(..) {..}: accepted only if the target declares that closure with exactly this text
	// (its rendering is calls[name]); the variable must not be assigned again
	if len(z.Lhs) == 1 && len(z.Rhs) == 1 && z.Tok == token.DEFINE {
		if fl, ok := z.Rhs[0].(*ast.FuncLit); ok {
			id, _ := z.Lhs[0].(*ast.Ident)
			if id == nil {
				x.bad(z, "function literal")
			}
			want, ok := x.t.closures[id.Name]
			norm := func(t string) string { return strings.Join(strings.Fields(t), " ") }
			if !ok || norm(want) != norm(src(fl)) {
				x.bad(z, "function literal that is not a closure the target declares")
			}
			obj := x.p.TypesInfo.Defs[id]
			ast.Inspect(x.fd.Body, func(n ast.Node) bool {
				if as, isAs := n.(*ast.AssignStmt); isAs && as != z {
					for _, l := range as.Lhs {
						if li, isId := l.(*ast.Ident); isId && x.p.TypesInfo.ObjectOf(li) == obj {
							x.bad(as, "a declared closure is assigned again")
						}
					}
				}
				return true
			})
			x.closed[obj] = true
			x.notes = append(x.notes, "closure (declared): "+clip(src(z)))
			return tail()
		}
	}
	// v.f = e on a local value v (not the receiver) whose field f has a declared setter: v is rebound to (set_f v e);
	// all right-hand sides are evaluated first, as in Go
	if z.Tok == token.ASSIGN && len(z.Lhs) == len(z.Rhs) && len(x.t.setters) > 0 {
		setterOf := func(l ast.Expr) (string, *ast.Ident) {
			if se, ok := l.(*ast.SelectorExpr); ok {
				if id, ok := se.X.(*ast.Ident); ok && id.Name != x.recv {
					if f, ok := x.t.setters[se.Sel.Name]; ok {
						if v, isVar := x.p.TypesInfo.ObjectOf(id).(*types.Var); isVar && v.Parent() != x.p.Types.Scope() {
							return f, id
						}
					}
				}
			}
			return "", nil
		}
		any := false
		for _, l := range z.Lhs {
			if f, _ := setterOf(l); f != "" {
				any = true
			}
		}
		if any {
			mark := len(x.pending)
			var vals, names, sets []string
			for i, r := range z.Rhs {
				vals = append(vals, x.expr(r))
				if f, id := setterOf(z.Lhs[i]); f != "" {
					names = append(names, x.objName(x.p.TypesInfo.ObjectOf(id), id.Name))
					sets = append(sets, x.use(f))
				} else {
					nm, ok := x.lhsName(z.Lhs[i])
					if !ok {
						x.bad(z, "assignment target outside the fragment")
					}
					x.stateWrite(z.Lhs[i], nm)
					names = append(names, nm)
					sets = append(sets, "")
				}
			}
			isId := func(c byte) bool {
				return c == '_' || c == '\'' || c >= '0' && c <= '9' || c >= 'a' && c <= 'z' || c >= 'A' && c <= 'Z'
			}
			for _, nm := range names {
				for _, v := range vals {
					for i := 0; i+len(nm) <= len(v); i++ {
						if v[i:i+len(nm)] == nm && (i == 0 || !isId(v[i-1])) && (i+len(nm) == len(v) || !isId(v[i+len(nm)])) {
							x.bad(z, "parallel assignment whose right-hand sides read an assigned variable")
						}
					}
				}
			}
			return x.hoistStmt(mark, func() string {
				var f func(i int) string
				f = func(i int) string {
					if i == len(names) {
						return tail()
					}
					rhs := vals[i]
					if sets[i] != "" {
						rhs = fmt.Sprintf("%s %s %s", sets[i], x.use(names[i]), paren(vals[i]))
					}
					return x.let(names[i], rhs, func() string { return f(i + 1) })
				}
				return f(0)
			})
		}
	}
	// call with a declared rendering on the right
	if len(z.Rhs) == 1 {
		if c, ok := z.Rhs[0].(*ast.CallExpr); ok {
			if cs, ok := x.t.calls[x.callKey(c)]; ok && cs.pure == "" {
				if z.Tok != token.ASSIGN && z.Tok != token.DEFINE {
					x.bad(z, "assignment operator with a call that has effects")
				}
				var lhs []string
				blank := true
				for _, l := range z.Lhs {
					if id, ok := l.(*ast.Ident); ok && id.Name == "_" {
						lhs = append(lhs, "_")
						continue
					}
					blank = false
					nm, _ := x.lhsName(l)
					lhs = append(lhs, nm)
				}
				if blank {
					lhs = nil // _, _ = f(..): the statement f(..)
				}
				return x.effectCall(c, cs, lhs, z, tail)
			}
		}
	}
	if ta, ok := z.Rhs[0].(*ast.TypeAssertExpr); ok && len(z.Rhs) == 1 && len(z.Lhs) == 2 && ta.Type != nil &&
		(z.Tok == token.ASSIGN || z.Tok == token.DEFINE) {
		// v, ok = e.(T): the asserted value and true, or the zero value of T and false
		st := types.TypeString(x.p.TypesInfo.TypeOf(ta.X), x.qual)
		tt := types.TypeString(x.p.TypesInfo.TypeOf(ta.Type), x.qual)
		tk := x.coqType(x.p.TypesInfo.TypeOf(ta.Type))
		if tk == "?" || x.coqType(x.p.TypesInfo.TypeOf(ta.X)) == "?" {
			x.bad(z, "type assertion between types the target does not map")
		}
		fn := x.use("as_" + sanitize(strings.TrimPrefix(tt, "*")) + "_of_" + sanitize(strings.TrimPrefix(st, "*")))
		mark := len(x.pending)
		e := x.expr(ta.X)
		var names []string
		for _, l := range z.Lhs {
			if id, isId := l.(*ast.Ident); isId && id.Name == "_" {
				names = append(names, "_")
				continue
			}
			nm, _ := x.lhsName(l)
			if z.Tok == token.ASSIGN {
				x.use(nm)
			}
			x.stateWrite(l, nm)
			names = append(names, nm)
		}
		zero := x.zeroOfKind(tk, z)
		return x.hoistStmt(mark, func() string {
			return x.letTuple(names, fmt.Sprintf("match %s %s with Some v_ => (v_, true) | None => (%s, false) end", fn, paren(e), zero), tail)
		})
	}
	if len(z.Lhs) != len(z.Rhs) {
		x.bad(z, "assignment form")
	}
	mark := len(x.pending)
	var names, vals []string
	for i := range z.Lhs {
		if id, ok := z.Lhs[i].(*ast.Ident); ok && id.Name == "_" {
			x.expr(z.Rhs[i])
			continue
		}
		if x.ignorable(z.Lhs[i]) {
			x.expr(z.Rhs[i]) // must be pure and inside the fragment all the same
			x.notes = append(x.notes, "ignored (untracked field): "+clip(src(z.Lhs[i])+" = "+src(z.Rhs[i])))
			continue
		}
		if ie, ok := z.Lhs[i].(*ast.IndexExpr); ok && z.Tok == token.ASSIGN {
			// m[k] = v on a package-level map: the table binder m_<name> with the key set (overwritten if present)
			if name := x.pkgVar(ie.X); name != "" {
				if mt, isMap := x.p.TypesInfo.TypeOf(ie.X).Underlying().(*types.Map); isMap && x.coqType(mt.Elem()) != "?" {
					nm := x.use("m_" + name)
					set := "mapZ_set"
					if x.coqType(mt.Key()) == "bytes" {
						set = "mapB_set"
					} else if x.coqType(mt.Key()) != "Z" {
						x.bad(z, "map write with a key type outside the fragment")
					}
					x.stateWrite(ie.X, nm)
					names = append(names, nm)
					vals = append(vals, fmt.Sprintf("(%s %s %s %s)", set, nm, paren(x.expr(ie.Index)), paren(x.expr(z.Rhs[i]))))
					continue
				}
			}
			// s.m[k] = v on a map field of the receiver that the target hands back: panics when the map is nil
			if mk := x.exprKind(ie.X); strings.HasPrefix(mk, "gomapB ") && x.kindOf(ie.Index) == "bytes" {
				nm, _ := x.lhsName(ie.X)
				x.use(nm)
				x.stateWrite(ie.X, nm)
				names = append(names, nm)
				vals = append(vals, x.partial(fmt.Sprintf("gomapB_set %s %s %s", nm, paren(x.expr(ie.Index)), paren(x.expr(z.Rhs[i])))))
				continue
			}
			// m[i][k] = v on a package-level map of maps: panics when the row m[i] is missing (a nil map)
			if inner, ok := ie.X.(*ast.IndexExpr); ok {
				if name := x.pkgVar(inner.X); name != "" && x.kindOf(inner.Index) == "Z" && x.kindOf(ie.Index) == "Z" {
					nm := x.use("m_" + name)
					x.stateWrite(inner.X, nm)
					names = append(names, nm)
					vals = append(vals, x.partial(fmt.Sprintf("map2_set %s %s %s %s", nm, paren(x.expr(inner.Index)), paren(x.expr(ie.Index)), paren(x.expr(z.Rhs[i])))))
					continue
				}
			}
			// v[i] = x on a slice of heap cells
			if x.kindOf(ie.X) == "hslice" && x.kindOf(ie.Index) == "Z" {
				names = append(names, "heap_")
				vals = append(vals, x.partial(fmt.Sprintf("h_set %s %s %s %s", x.use("heap_"), paren(x.expr(ie.X)), paren(x.expr(ie.Index)), paren(x.expr(z.Rhs[i])))))
				continue
			}
			// v[i] = c on a tracked byte slice
			if v, ok := x.sliceVar(ie.X); ok && x.kindOf(ie.X) == "gslice" && x.kindOf(ie.Index) == "Z" && x.kindOf(z.Rhs[i]) == "Z" {
				x.use(v)
				names = append(names, v)
				vals = append(vals, x.partial("sl_set "+v+" "+paren(x.expr(ie.Index))+" "+paren(x.expr(z.Rhs[i]))))
				continue
			}
		}
		nm, _ := x.lhsName(z.Lhs[i])
		lk, rk := x.exprKind(z.Lhs[i]), x.exprKind(z.Rhs[i])
		rhs := ""
		if id, ok := z.Rhs[i].(*ast.Ident); ok && id.Name == "nil" {
			rhs, rk = x.nilOf(lk, z), lk // an untyped nil takes the type of what it is assigned to
		} else {
			rhs = x.expr(z.Rhs[i])
		}
		if lk == "?" || (lk != rk && !(strings.HasPrefix(lk, "gomap") && "go"+rk == lk)) {
			x.bad(z, "assignment between different translated types ("+lk+" := "+rk+")")
		}
		switch z.Tok {
		case token.ASSIGN, token.DEFINE:
		case token.OR_ASSIGN:
			rhs = "(Z.lor " + x.use(nm) + " " + rhs + ")"
		case token.ADD_ASSIGN:
			switch lk {
			case "Z":
				rhs = "(" + x.use(nm) + " + " + rhs + ")"
			case "bytes":
				rhs = "(" + x.use(nm) + " ++ " + rhs + ")"
			default:
				x.bad(z, "assignment operator")
			}
		case token.SUB_ASSIGN:
			if lk != "Z" {
				x.bad(z, "assignment operator")
			}
			rhs = "(" + x.use(nm) + " - " + rhs + ")"
		default:
			x.bad(z, "assignment operator")
		}
		if z.Tok == token.ASSIGN {
			x.use(nm) // plain assignment to something that is not in scope (a field the target does not track)
		}
		x.stateWrite(z.Lhs[i], nm)
		names = append(names, nm)
		vals = append(vals, rhs)
	}
	return x.hoistStmt(mark, func() string {
		if len(names) == 0 {
			return tail()
		}
		return x.letTuple(names, tuple(vals), tail)
	})
}

// lookupIf: if v, ok := m[k]; COND { A } else { B }
func (x *tr) lookupIf(z *ast.IfStmt, as *ast.AssignStmt, ix *ast.IndexExpr, rest []ast.Stmt, k func() string) string {
	v, _ := x.lhsName(as.Lhs[0])
	okName := src(as.Lhs[1])
	simple, neg := false, false
	switch c := z.Cond.(type) {
	case *ast.Ident:
		if c.Name == okName {
			simple = true
		}
	case *ast.UnaryExpr:
		if c.Op == token.NOT && src(c.X) == okName {
			simple, neg = true, true
		}
	}
	if x.t.strict {
		if okName != "_" {
			okName, _ = x.lhsName(as.Lhs[1])
		}
		if _, isId := as.Lhs[0].(*ast.Ident); !isId {
			x.bad(z, "map lookup form")
		}
	}
	if !simple && !x.t.strict {
		if _, isBin := z.Cond.(*ast.BinaryExpr); isBin {
			x.bad(z, "compound map lookup condition")
		}
		x.bad(z, "map lookup condition")
	}
	if x.t.strict && (as.Tok != token.DEFINE || okName == "_") {
		x.bad(z, "map lookup form")
	}
	mark := len(x.pending)
	look, m := "lookupZ", ""
	if !x.t.strict {
		m = x.expr(ix.X)
		if !strings.HasPrefix(m, "g_") {
			x.bad(z, "lookup in something that is not a package table")
		}
		m = "m_" + m[2:]
		delete(x.free, "g_"+m[2:])
		x.use(m)
	} else {
		mk := x.exprKind(ix.X)
		pkgTable := false
		if id, ok := ix.X.(*ast.Ident); ok {
			if v, ok := x.p.TypesInfo.Uses[id].(*types.Var); ok && v.Parent() == x.p.Types.Scope() {
				// package table: a binder m_<name> (instantiated with Gen.Tables in the theorems)
				if mt, ok := v.Type().Underlying().(*types.Map); ok && x.coqType(mt.Elem()) != "?" &&
					(x.coqType(mt.Key()) == "bytes" || x.coqType(mt.Key()) == "Z") {
					m = x.use("m_" + id.Name)
					pkgTable = true
				}
			}
		}
		switch {
		case pkgTable:
		case strings.HasPrefix(mk, "gomap "):
			look, m = "map_get", x.expr(ix.X)
		case strings.HasPrefix(mk, "gomapB "):
			look, m = "mapB_get", x.expr(ix.X)
		case strings.HasPrefix(mk, "map "):
			if _, isId := ix.X.(*ast.Ident); !isId {
				x.bad(z, "lookup in something that is not a map of the fragment")
			}
			m = x.expr(ix.X)
		default:
			x.bad(z, "lookup in something that is not a map of the fragment")
		}
	}
	if x.kindOf(ix.Index) == "bytes" && look == "lookupZ" {
		look = "lookupB"
	}
	key := x.expr(ix.Index)
	vk := ""
	if x.t.strict {
		vk = x.coqType(x.p.TypesInfo.TypeOf(as.Lhs[0]))
	} else {
		vk = kindOfType(x.p.TypesInfo.TypeOf(as.Lhs[0]))
	}
	els := elseList(z)
	bindName := v
	if v == "" {
		bindName = "_"
	}
	if simple {
		found, missing := z.Body.List, els
		if neg {
			found, missing = els, z.Body.List
		}
		if !x.t.strict {
			some := x.seq(cat(found, rest), k)
			none := x.seq(cat(missing, rest), k)
			if v != "" {
				none = fmt.Sprintf("let %s := %s in %s", v, zeroOf(vk), none)
			}
			return fmt.Sprintf("match %s %s %s with\n  | Some %s => %s\n  | None => %s\n  end", look, m, key, bindName, some, none)
		}
		return x.hoistStmt(mark, func() string {
			var bn []string
			if v != "" {
				bn = []string{v}
			}
			some := x.bind(bn, func() string { return x.seq(cat(found, rest), k) })
			// the not-found arm: v is the zero value, which a careful program does not look at; it is
			// bound only if the arm mentions it
			none := ""
			if v != "" && x.mentions(cat(missing, rest), as.Lhs[0]) {
				none = x.let(v, x.zeroOfKind(vk, z), func() string { return x.seq(cat(missing, rest), k) })
			} else {
				none = x.seq(cat(missing, rest), k)
			}
			return fmt.Sprintf("match %s %s %s with\n  | Some %s => %s\n  | None => %s\n  end", look, m, key, bindName, some, none)
		})
	}
	// compound condition (strict): ok is an ordinary boolean in both arms
	plain := *z
	plain.Init = nil
	return x.hoistStmt(mark, func() string {
		var bn []string
		if v != "" {
			bn = []string{v}
		}
		some := x.bind(bn, func() string {
			return x.let(okName, "true", func() string { return x.seq(cat([]ast.Stmt{&plain}, rest), k) })
		})
		noneBody := func() string {
			return x.let(okName, "false", func() string { return x.seq(cat([]ast.Stmt{&plain}, rest), k) })
		}
		none := ""
		if v != "" {
			none = x.let(v, x.zeroOfKind(vk, z), noneBody)
		} else {
			none = noneBody()
		}
		return fmt.Sprintf("match %s %s %s with\n  | Some %s => %s\n  | None => %s\n  end", look, m, key, bindName, some, none)
	})
}

// mentions: do the statements refer to the variable defined by id?
func (x *tr) mentions(stmts []ast.Stmt, def ast.Expr) bool {
	id, ok := def.(*ast.Ident)
	if !ok {
		return true
	}
	obj := x.p.TypesInfo.ObjectOf(id)
	found := false
	for _, s := range stmts {
		ast.Inspect(s, func(n ast.Node) bool {
			if u, ok := n.(*ast.Ident); ok && x.p.TypesInfo.Uses[u] == obj && obj != nil {
				found = true
			}
			return true
		})
	}
	return found
}

// assertIf: if v, ok := e.(T); COND { A } else { B }: the assertion is an oracle as_<T>_of_<S> the target declares
func (x *tr) assertIf(z *ast.IfStmt, as *ast.AssignStmt, ta *ast.TypeAssertExpr, rest []ast.Stmt, k func() string) string {
	if as.Tok != token.DEFINE || ta.Type == nil {
		x.bad(z, "type assertion form")
	}
	v, _ := x.lhsName(as.Lhs[0])
	okName := src(as.Lhs[1])
	if okName == "_" {
		x.bad(z, "type assertion form")
	}
	if _, isId := as.Lhs[0].(*ast.Ident); !isId {
		x.bad(z, "type assertion form")
	}
	st := types.TypeString(x.p.TypesInfo.TypeOf(ta.X), x.qual)
	tt := types.TypeString(x.p.TypesInfo.TypeOf(ta.Type), x.qual)
	fn := x.use("as_" + sanitize(strings.TrimPrefix(tt, "*")) + "_of_" + sanitize(strings.TrimPrefix(st, "*")))
	if x.coqType(x.p.TypesInfo.TypeOf(ta.Type)) == "?" || x.coqType(x.p.TypesInfo.TypeOf(ta.X)) == "?" {
		x.bad(z, "type assertion between types the target does not map")
	}
	e := x.expr(ta.X)
	els := elseList(z)
	bindName := v
	var bn []string
	if v == "" {
		bindName = "_"
	} else {
		bn = []string{v}
	}
	simple, neg := false, false
	switch c := z.Cond.(type) {
	case *ast.Ident:
		simple = c.Name == okName
	case *ast.UnaryExpr:
		if c.Op == token.NOT && src(c.X) == okName {
			simple, neg = true, true
		}
	}
	if !simple {
		x.bad(z, "compound type assertion condition")
	}
	found, missing := z.Body.List, els
	if neg {
		found, missing = els, z.Body.List
	}
	if v != "" && x.mentions(cat(missing, rest), as.Lhs[0]) {
		x.bad(z, "the failed arm of a type assertion uses the asserted value")
	}
	some := x.bind(bn, func() string { return x.seq(cat(found, rest), k) })
	none := x.seq(cat(missing, rest), k)
	return fmt.Sprintf("match %s %s with\n  | Some %s => %s\n  | None => %s\n  end", fn, e, bindName, some, none)
}

func (x *tr) switchStmt(z *ast.SwitchStmt, rest []ast.Stmt, k func() string) string {
	if !x.t.strict && (z.Init != nil || z.Tag == nil) {
		x.bad(z, "switch form")
	}
	if z.Init != nil {
		plain := *z
		plain.Init = nil
		return x.seq(cat([]ast.Stmt{z.Init, &plain}, rest), k)
	}
	tag := ""
	if z.Tag != nil {
		mark := len(x.pending)
		tag = x.expr(z.Tag)
		x.noPending(mark, z)
		if x.t.strict && x.kindOf(z.Tag) != "Z" {
			x.bad(z, "switch on a non-integer")
		}
	}
	type clause struct {
		cond string
		def  bool
		body []ast.Stmt
		fall bool
	}
	var cls []clause
	for _, c := range z.Body.List {
		cc := c.(*ast.CaseClause)
		cl := clause{body: cc.Body}
		for i, st := range cc.Body {
			if br, ok := st.(*ast.BranchStmt); ok {
				if br.Tok == token.FALLTHROUGH && x.t.strict && i == len(cc.Body)-1 {
					cl.fall = true
					cl.body = cc.Body[:i]
					continue
				}
				if br.Tok == token.FALLTHROUGH {
					x.bad(z, "fallthrough")
				}
			}
		}
		if x.t.strict {
			for _, st := range cc.Body {
				ast.Inspect(st, func(n ast.Node) bool {
					switch n.(type) {
					case *ast.ForStmt, *ast.RangeStmt, *ast.SwitchStmt, *ast.TypeSwitchStmt, *ast.SelectStmt:
						return false
					}
					if br, ok := n.(*ast.BranchStmt); ok && br.Tok == token.BREAK {
						x.bad(z, "break inside a switch")
					}
					return true
				})
			}
		}
		if cc.List == nil {
			cl.def = true
		} else {
			var cs []string
			for _, e := range cc.List {
				mark := len(x.pending)
				if z.Tag != nil {
					cs = append(cs, "("+tag+" =? "+x.expr(e)+")")
				} else {
					cs = append(cs, x.expr(e))
				}
				x.noPending(mark, e)
			}
			cl.cond = strings.Join(cs, " || ")
		}
		cls = append(cls, cl)
	}
	// body of clause i with the clauses it falls through to
	var eff func(i int) []ast.Stmt
	eff = func(i int) []ast.Stmt {
		if cls[i].fall {
			if i+1 >= len(cls) {
				x.bad(z, "fallthrough out of the last clause")
			}
			return cat(cls[i].body, eff(i+1))
		}
		return cls[i].body
	}
	var def []ast.Stmt
	for i := range cls {
		if cls[i].def {
			def = eff(i)
		}
	}
	var build func(i int) string
	build = func(i int) string {
		for i < len(cls) && cls[i].def {
			i++
		}
		if i == len(cls) {
			return x.seq(cat(def, rest), k)
		}
		b := x.seq(cat(eff(i), rest), k)
		return fmt.Sprintf("if %s then %s\n  else %s", cls[i].cond, b, build(i+1))
	}
	return build(0)
}

// rangeStrict: for _, v := range xs { body } (a slice) or for k, v := range m { body } (a package-level
// map, ranged in the order of the table the binder m_<name> stands for) as a fold over the variables
// the body assigns.  A body that can panic folds over option state (None = it panicked).
func (x *tr) rangeStrict(z *ast.RangeStmt, tail func() string) string {
	if z.Tok != token.DEFINE {
		x.bad(z, "range form")
	}
	rangeVar := func(e ast.Expr) string {
		if e == nil {
			return "_"
		}
		id, ok := e.(*ast.Ident)
		if !ok {
			x.bad(z, "range form")
		}
		if id.Name == "_" {
			return "_"
		}
		return x.objName(x.p.TypesInfo.Defs[id], id.Name)
	}
	var coll, elk, elPat string
	var elNames []string
	if _, isMap := x.p.TypesInfo.TypeOf(z.X).Underlying().(*types.Map); isMap {
		mt := x.p.TypesInfo.TypeOf(z.X).Underlying().(*types.Map)
		name := x.pkgVar(z.X)
		kk, vk := x.coqType(mt.Key()), x.coqType(mt.Elem())
		if name == "" || kk == "?" || vk == "?" {
			x.bad(z, "range over a map that is not a package-level table of the fragment")
		}
		coll = x.use("m_" + name)
		elk = paren(kk) + " * " + paren(vk)
		k, v := rangeVar(z.Key), rangeVar(z.Value)
		elPat = "'(" + k + ", " + v + ")"
		for _, n := range []string{k, v} {
			if n != "_" {
				elNames = append(elNames, n)
			}
		}
	} else {
		if z.Value == nil || rangeVar(z.Key) != "_" {
			x.bad(z, "range with an index variable")
		}
		ck := x.kindOf(z.X)
		if !strings.HasPrefix(ck, "list ") {
			x.bad(z, "range over something that is not a slice of the fragment")
		}
		elk = ck[5:]
		mark := len(x.pending)
		coll = x.expr(z.X)
		x.noPending(mark, z)
		v := rangeVar(z.Value)
		if v == "_" {
			x.bad(z, "range form")
		}
		elNames = []string{v}
	}
	hasBrk, hasRet := false, false
	ast.Inspect(z.Body, func(n ast.Node) bool {
		switch b := n.(type) {
		case *ast.ReturnStmt:
			hasRet = true
			if len(x.named) == 0 && x.t.retTy == "" {
				x.bad(z, "return inside a loop of a function without named results")
			}
		case *ast.BranchStmt:
			switch {
			case b.Label != nil:
				x.bad(z, "labelled branch inside a loop")
			case b.Tok == token.BREAK:
				hasBrk = true // (a break inside a switch is rejected by the switch)
			case b.Tok != token.CONTINUE:
				x.bad(z, "goto / fallthrough inside a loop")
			}
		case *ast.ForStmt, *ast.RangeStmt, *ast.SelectStmt, *ast.FuncLit:
			x.bad(z, "nested loop / select / function literal")
		}
		return true
	})
	canPanic := x.partialInside(z.Body.List)
	if canPanic && x.t.panicT == "" {
		x.bad(z, "operation that can panic inside a loop of a target without a panic outcome")
	}
	useRv := hasRet && len(x.named) == 0
	vars := x.outerAssigned(z.Body.List)
	if len(vars) == 0 && !useRv {
		x.bad(z, "loop without a tracked effect")
	}
	for _, v := range vars {
		x.use(v)
	}
	noneRv := "(@None " + paren(x.t.retTy) + ")"
	// the fold state: the variables, then brk_ (the loop was left) and ret_ (.. by a return)
	all := append([]string{}, vars...)
	var init, cont, brk, ret []string
	init, cont, brk, ret = append(init, vars...), append(cont, vars...), append(brk, vars...), append(ret, vars...)
	if hasBrk || hasRet {
		all, init, cont, brk, ret = append(all, "brk_"), append(init, "false"), append(cont, "false"), append(brk, "true"), append(ret, "true")
	}
	if hasRet && !useRv {
		all, init, cont, brk, ret = append(all, "ret_"), append(init, "false"), append(cont, "false"), append(brk, "false"), append(ret, "true")
	}
	if useRv {
		// rv_: the value returned out of the loop, if any
		all, init, cont, brk = append(all, "rv_"), append(init, noneRv), append(cont, noneRv), append(brk, noneRv)
	}
	wrap := func(t []string) func() string {
		if canPanic {
			return func() string { return "Some " + paren(tuple(t)) }
		}
		return func() string { return tuple(t) }
	}
	lc := &loopCtx{cont: wrap(cont)}
	if hasBrk {
		lc.brk = wrap(brk)
	}
	if hasRet && !useRv {
		lc.ret = wrap(ret)
	}
	if useRv {
		lc.retv = func(v string) string { return wrap(append(append([]string{}, ret...), "Some "+paren(v)))() }
	}
	x.loops = append(x.loops, lc)
	if canPanic {
		x.optLoop++
	}
	// the element: a plain binder, or a pair pattern for a map
	elBinder, elOpen := "", ""
	if elPat != "" {
		elBinder, elOpen = "(kv_ : "+elk+")", "let "+elPat+" := kv_ in\n  "
	} else {
		elBinder = "(" + elNames[0] + " : " + elk + ")"
	}
	body := x.bind(append(append([]string{}, elNames...), all...), func() string { return x.seq(z.Body.List, lc.cont) })
	body = elOpen + body
	stName := "st_"
	if len(all) == 1 {
		stName = all[0]
	} else {
		if hasBrk || hasRet {
			stop := "st_"
			if canPanic {
				stop = "Some st_"
			}
			body = "if (brk_ : bool) then " + stop + " else\n  " + body
		}
		body = "let '" + tuple(all) + " := st_ in\n  " + body
	}
	var lam string
	if canPanic {
		lam = fmt.Sprintf("(fun ost_ %s => match ost_ with\n  | None => None\n  | Some %s => %s\n  end)", elBinder, stName, body)
	} else {
		lam = fmt.Sprintf("(fun %s %s => %s)", stName, elBinder, body)
	}
	if canPanic {
		x.optLoop--
	}
	x.loops = x.loops[:len(x.loops)-1]
	after := tail
	if hasRet {
		if len(x.loops) > 0 {
			x.bad(z, "return inside a nested loop")
		}
		after = func() string {
			return fmt.Sprintf("if (ret_ : bool) then %s\n  else %s", x.t.final, tail())
		}
		if useRv {
			after = func() string {
				parts := []string{"rv_"}
				for _, e := range x.t.effects {
					parts = append(parts, x.use(e))
				}
				v := tuple(parts)
				if x.t.retfmt != "" {
					v = fmt.Sprintf(x.t.retfmt, v)
				}
				return fmt.Sprintf("match rv_ with\n  | Some rv_ => %s\n  | None => %s\n  end", v, tail())
			}
		}
	}
	if canPanic {
		rest := x.bind(all, after)
		return fmt.Sprintf("match fold_left %s %s (Some %s) with\n  | None => %s\n  | Some %s => %s\n  end",
			lam, coll, paren(tuple(init)), x.panicTerm(), patTuple(all), rest)
	}
	return x.letTuple(all, fmt.Sprintf("fold_left %s %s %s", lam, coll, tuple(init)), after)
}

// forStrict: for ; COND; POST { BODY } as go_loop FUEL step state: the step function tests COND, runs BODY
// and POST on the tuple of the variables they assign; the fuel is the target's declaration for this loop
// (fuels[i]); running out of it ends the function like a panic, so the C.._gen_* theorem, which shows that
// the function returns what the model returns, also shows that the declared fuel suffices.
func (x *tr) forStrict(z *ast.ForStmt, tail func() string) string {
	if x.t.panicT == "" {
		x.bad(z, "for loop in a target without a panic outcome")
	}
	fuel := ""
	if idx, ok := x.forIdx[z]; ok && idx < len(x.t.fuels) {
		fuel = x.t.fuels[idx]
	}
	if x.t.panicFmt != "" && x.t.okfmt != "" {
		return x.forBres(z, fuel, tail)
	}
	hasRet := false
	ast.Inspect(z.Body, func(n ast.Node) bool {
		switch b := n.(type) {
		case *ast.ReturnStmt:
			hasRet = true
			if x.t.retTy == "" || len(b.Results) == 0 {
				x.bad(z, "return inside a for loop of a target without a declared result type")
			}
		case *ast.BranchStmt:
			if b.Label != nil || (b.Tok != token.CONTINUE && b.Tok != token.BREAK) {
				x.bad(z, "labelled branch / goto inside a loop")
			}
		case *ast.ForStmt, *ast.RangeStmt, *ast.SelectStmt, *ast.FuncLit:
			if n != ast.Node(z.Body) {
				x.bad(z, "nested loop / select / function literal")
			}
		}
		return true
	})
	stmts := append([]ast.Stmt{}, z.Body.List...)
	var post []ast.Stmt
	if z.Post != nil {
		post = []ast.Stmt{z.Post}
	}
	vars := x.outerAssignedIn(append(stmts, post...), z.Body.Pos(), z.Body.End())
	if len(vars) == 0 {
		x.bad(z, "loop without a tracked effect")
	}
	for _, v := range vars {
		x.use(v)
	}
	if fuel == "" {
		fuel = x.countingFuel(z, vars)
	}
	inner := vars
	if hasRet {
		// rv_: the value returned out of the loop, if any
		vars = append(append([]string{}, vars...), "rv_")
	}
	st := tuple(vars)
	lc := &loopCtx{
		cont: func() string { return x.seq(post, func() string { return "LoopNext " + paren(tuple(vars)) }) },
		brk:  func() string { return "LoopDone " + paren(tuple(vars)) },
	}
	if hasRet {
		lc.retv = func(v string) string {
			return "LoopDone " + paren(tuple(append(append([]string{}, inner...), "Some "+paren(v))))
		}
	}
	x.loops = append(x.loops, lc)
	x.panics = append(x.panics, "LoopPanic")
	body := x.bind(vars, func() string {
		if z.Cond == nil {
			return x.seq(stmts, lc.cont)
		}
		mark := len(x.pending)
		c := x.expr(z.Cond)
		return x.hoistStmt(mark, func() string {
			return fmt.Sprintf("if %s\n  then %s\n  else %s", c, x.seq(stmts, lc.cont), lc.brk())
		})
	})
	x.panics = x.panics[:len(x.panics)-1]
	x.loops = x.loops[:len(x.loops)-1]
	lam := ""
	if len(vars) == 1 {
		lam = fmt.Sprintf("(fun %s => %s)", vars[0], body)
	} else {
		lam = fmt.Sprintf("(fun st_ => let '%s := st_ in\n  %s)", st, body)
	}
	rest := x.bind(vars, tail)
	init := st
	if hasRet {
		init = tuple(append(append([]string{}, inner...), "(@None "+paren(x.t.retTy)+")"))
		wrapped := "rv_"
		if x.t.retfmt != "" {
			wrapped = fmt.Sprintf(x.t.retfmt, "rv_")
		}
		rest = fmt.Sprintf("match rv_ with\n  | Some rv_ => %s\n  | None => %s\n  end", wrapped, rest)
	}
	return fmt.Sprintf("match go_loop (%s) %s %s with\n  | None => %s\n  | Some %s => %s\n  end",
		fuel, lam, init, x.panicTerm(), patTuple(vars), rest)
}

// forBres: a three-clause loop of a function that ends in a bres (BOk results state | BRange state | BPanic v state):
// go_loop_b, whose step can end the whole function with such a value (return, panic, panic of a callee)
func (x *tr) forBres(z *ast.ForStmt, fuel string, tail func() string) string {
	ast.Inspect(z.Body, func(n ast.Node) bool {
		switch b := n.(type) {
		case *ast.BranchStmt:
			if b.Label != nil || (b.Tok != token.CONTINUE && b.Tok != token.BREAK) {
				x.bad(z, "labelled branch / goto inside a loop")
			}
		case *ast.ForStmt, *ast.RangeStmt, *ast.SelectStmt, *ast.FuncLit:
			if n != ast.Node(z.Body) {
				x.bad(z, "nested loop / select / function literal")
			}
		}
		return true
	})
	stmts := append([]ast.Stmt{}, z.Body.List...)
	var post []ast.Stmt
	if z.Post != nil {
		post = []ast.Stmt{z.Post}
	}
	vars := x.outerAssignedIn(append(stmts, post...), z.Body.Pos(), z.Body.End())
	if len(vars) == 0 {
		x.bad(z, "loop without a tracked effect")
	}
	for _, v := range vars {
		x.use(v)
	}
	if fuel == "" {
		fuel = x.countingFuel(z, vars)
	}
	lc := &loopCtx{
		cont: func() string { return x.seq(post, func() string { return "LbNext " + paren(tuple(vars)) }) },
		brk:  func() string { return "LbBreak " + paren(tuple(vars)) },
	}
	x.loops = append(x.loops, lc)
	x.bresLoop++
	x.panics = append(x.panics, "LbEnd ("+x.t.panicT+")")
	body := x.bind(vars, func() string {
		if z.Cond == nil {
			return x.seq(stmts, lc.cont)
		}
		mark := len(x.pending)
		c := x.expr(z.Cond)
		return x.hoistStmt(mark, func() string {
			return fmt.Sprintf("if %s\n  then %s\n  else %s", c, x.seq(stmts, lc.cont), lc.brk())
		})
	})
	x.panics = x.panics[:len(x.panics)-1]
	x.bresLoop--
	x.loops = x.loops[:len(x.loops)-1]
	lam := ""
	if len(vars) == 1 {
		lam = fmt.Sprintf("(fun %s => %s)", vars[0], body)
	} else {
		lam = fmt.Sprintf("(fun st_ => let '%s := st_ in\n  %s)", tuple(vars), body)
	}
	rest := x.bind(vars, tail)
	return fmt.Sprintf("match go_loop_b (%s) %s %s with\n  | None => %s\n  | Some (LrEnd r_) => r_\n  | Some (LrBreak %s) => %s\n  end",
		fuel, lam, tuple(vars), x.panicTerm(), patTuple(vars), rest)
}

// autoCall: an undeclared call of a plain function of the package (no receiver, parameters and one result
// of translatable basic types): the function is translated as an auxiliary definition aux_<name> with
// the table / oracle binders of the calling target passed through, and the call is a partial operation
// (None = the helper panics or runs out of fuel).
func (x *tr) autoCall(c *ast.CallExpr) string {
	id, ok := c.Fun.(*ast.Ident)
	if !ok {
		return ""
	}
	fn, ok := x.p.TypesInfo.Uses[id].(*types.Func)
	if !ok || fn.Pkg() != x.p.Types {
		return ""
	}
	sig := fn.Type().(*types.Signature)
	if sig.Recv() != nil || sig.Variadic() || sig.Results().Len() != 1 || c.Ellipsis != token.NoPos {
		return ""
	}
	var pass []string // binders handed through
	for _, b := range x.t.params {
		parts := strings.SplitN(b[1:len(b)-1], ":", 2)
		ty := strings.TrimSpace(parts[1])
		for _, n := range strings.Fields(parts[0]) {
			if strings.HasPrefix(n, "g_") || strings.HasPrefix(n, "m_") || strings.HasPrefix(n, "f_") || strings.Contains(ty, "->") {
				pass = append(pass, "("+n+" : "+ty+")")
			}
		}
	}
	name, done := x.auxName[fn]
	if !done {
		rt := x.coqType(sig.Results().At(0).Type())
		if rt == "?" {
			x.bad(c, "helper "+fn.Name()+": result type outside the fragment")
		}
		ps := append([]string{}, pass...)
		for i := 0; i < sig.Params().Len(); i++ {
			p := sig.Params().At(i)
			k := x.coqType(p.Type())
			if k == "?" || p.Name() == "" || p.Name() == "_" {
				x.bad(c, "helper "+fn.Name()+": parameter type outside the fragment")
			}
			ps = append(ps, "("+x.ident(p.Name())+" : "+k+")")
		}
		name = "aux_" + x.t.coq + "_" + fn.Name()
		at := &target{pkg: x.t.pkg, recv: "", fn: fn.Name(), coq: name, strict: true, auto: false, isAux: true,
			comment: "(helper met on the way; None = panic / out of fuel)", panicT: "None", retfmt: "Some (%s)", retTy: rt,
			tymap: x.t.tymap, calls: x.t.calls, params: ps, result: "option " + paren(rt), final: "None", globals: x.t.globals}
		def, ok, why := translate(at)
		if !ok {
			x.bad(c, "helper "+fn.Name()+": "+why)
		}
		x.aux = append(x.aux, def)
		x.auxName[fn] = name
	}
	var args []string
	for _, b := range pass {
		args = append(args, strings.Fields(b[1:])[0])
	}
	for _, a := range c.Args {
		args = append(args, paren(x.expr(a)))
	}
	return x.partial(name + " " + strings.Join(args, " "))
}

// countingFuel: for ..; i < B; i++ { body } where the body assigns neither i nor anything B reads runs at
// most B - i rounds: fuel = S (Z.to_nat (B - i)) at loop entry.  (A wrong bound could only make the
// generated function return None, never a wrong value.)
func (x *tr) countingFuel(z *ast.ForStmt, vars []string) string {
	be, ok := z.Cond.(*ast.BinaryExpr)
	if !ok || be.Op != token.LSS {
		x.bad(z, "for loop without a declared fuel")
	}
	id, ok := be.X.(*ast.Ident)
	inc, isInc := z.Post.(*ast.IncDecStmt)
	if !ok || !isInc || inc.Tok != token.INC || src(inc.X) != id.Name || x.kindOf(id) != "Z" || x.kindOf(be.Y) != "Z" {
		x.bad(z, "for loop without a declared fuel")
	}
	iname := x.objName(x.p.TypesInfo.Uses[id], id.Name)
	bodyVars := x.outerAssignedIn(z.Body.List, z.Body.Pos(), z.Body.End())
	assigned := map[string]bool{}
	for _, v := range bodyVars {
		assigned[v] = true
	}
	bad := assigned[iname]
	ast.Inspect(be.Y, func(n ast.Node) bool {
		if u, ok := n.(*ast.Ident); ok {
			if obj, isVar := x.p.TypesInfo.Uses[u].(*types.Var); isVar && assigned[x.objName(obj, u.Name)] {
				bad = true
			}
		}
		if cl, isCall := n.(*ast.CallExpr); isCall && x.callKey(cl) != "len" {
			bad = true
		}
		return true
	})
	if bad {
		x.bad(z, "for loop without a declared fuel")
	}
	mark := len(x.pending)
	b := x.expr(be.Y)
	x.noPending(mark, z)
	return "S (Z.to_nat (" + b + " - " + x.use(iname) + "))"
}

func patTuple(names []string) string {
	if len(names) == 1 {
		return names[0]
	}
	return "(" + strings.Join(names, ", ") + ")"
}

// partialInside: do the statements contain an operation that can panic?
func (x *tr) partialInside(stmts []ast.Stmt) bool {
	found := false
	for _, s := range stmts {
		ast.Inspect(s, func(n ast.Node) bool {
			switch z := n.(type) {
			case *ast.SliceExpr:
				found = true
			case *ast.IndexExpr:
				if _, isMap := x.p.TypesInfo.TypeOf(z.X).Underlying().(*types.Map); !isMap {
					found = true
				}
			case *ast.CallExpr:
				key := x.callKey(z)
				if cs, ok := x.t.calls[key]; (ok && cs.partial) || key == "strings.Repeat" || key == "panic" || key == "copy" {
					found = true
				}
			}
			return true
		})
	}
	return found
}

func translate(t *target) (def string, ok bool, why string) {
	p := t.pkg()
	fd := findFunc(p, t.recv, t.fn)
	if fd == nil {
		return "", false, "function not found"
	}
	x := &tr{t: t, p: p, fd: fd, free: map[string]bool{}, bound: map[string]int{}, ignored: map[types.Object]bool{}, names: map[types.Object]string{}, namedPos: map[string]token.Pos{},
		forIdx: map[*ast.ForStmt]int{}, closed: map[types.Object]bool{}, auxName: map[*types.Func]string{}}
	nfor := 0
	ast.Inspect(fd.Body, func(n ast.Node) bool {
		if f, ok := n.(*ast.ForStmt); ok {
			x.forIdx[f] = nfor
			nfor++
		}
		return true
	})
	x.fscope = p.TypesInfo.Scopes[fd.Type]
	if fd.Recv != nil && len(fd.Recv.List[0].Names) > 0 {
		x.recv = fd.Recv.List[0].Names[0].Name
	}
	defer func() {
		if r := recover(); r != nil {
			if u, isU := r.(untranslatable); isU {
				def, ok, why = "", false, u.why
				return
			}
			panic(r)
		}
	}()
	declared := map[string]bool{}
	for _, b := range t.params {
		nm := strings.TrimSpace(strings.Split(strings.Trim(b, "()"), ":")[0])
		for _, n := range strings.Fields(nm) {
			declared[n] = true
			x.bound[n]++
		}
	}
	for _, g := range t.globals {
		x.bound[g]++
	}
	var body string
	if t.cond != nil {
		c := t.cond(fd)
		if c == nil {
			return "", false, "condition not found"
		}
		body = x.expr(c)
		x.noPending(0, c)
	} else {
		stmts := fd.Body.List
		if t.from != nil {
			stmts = t.from(stmts)
			if stmts == nil {
				return "", false, "start statement not found"
			}
		}
		if t.strict {
			// named results start at their zero values
			type nr struct{ nm, val string }
			var nrs []nr
			if fd.Type.Results != nil {
				for _, f := range fd.Type.Results.List {
					for _, n := range f.Names {
						if n.Name == "_" {
							continue
						}
						nrs = append(nrs, nr{x.ident(n.Name), x.zeroOfKind(x.coqType(p.TypesInfo.Defs[n].Type()), n)})
						x.named = append(x.named, x.ident(n.Name))
						x.namedPos[x.ident(n.Name)] = n.Pos()
					}
				}
			}
			var f func(i int) string
			f = func(i int) string {
				if i == len(nrs) {
					return x.seq(stmts, func() string { return t.final })
				}
				return x.let(nrs[i].nm, nrs[i].val, func() string { return f(i + 1) })
			}
			body = f(0)
		} else {
			body = x.seq(stmts, func() string { return t.final })
		}
	}
	// every free variable must be a declared binder
	for v := range x.free {
		if !declared[v] {
			// variables bound by let inside the body are fine: check textual binding
			if !strings.Contains(body, "let "+v+" :=") && !strings.Contains(body, "fun "+v+" ") &&
				!strings.Contains(body, " "+v+" =>") && !strings.Contains(body, "Some "+v+" ") &&
				!strings.Contains(body, "("+v+", ") && !strings.Contains(body, ", "+v+")") {
				return "", false, "unexpected free variable " + v
			}
		}
	}
	if t.strict {
		body = reindent(body)
	}
	notes := ""
	seenNote := map[string]bool{}
	for _, n := range x.notes {
		if seenNote[n] {
			continue
		}
		seenNote[n] = true
		if t.strict {
			n = commentSafe(n)
		}
		notes += "   (* " + strings.ReplaceAll(n, "*)", "* )") + " *)\n"
	}
	return strings.Join(x.aux, "\n") + fmt.Sprintf("(* %s.%s  %s *)\n%sDefinition %s %s : %s :=\n  %s.\n", t.recv, t.fn, t.comment, notes, t.coq, strings.Join(t.params, " "), t.result, body), true, ""
}

// reindent lays the generated term out by the nesting of match .. end and of parentheses
// (layout only: the tokens and their order are untouched)
func reindent(body string) string {
	words := func(line, w string) int {
		n := 0
		for i := 0; i+len(w) <= len(line); i++ {
			if line[i:i+len(w)] != w {
				continue
			}
			isId := func(c byte) bool {
				return c == '_' || c == '\'' || c >= '0' && c <= '9' || c >= 'a' && c <= 'z' || c >= 'A' && c <= 'Z'
			}
			if i > 0 && isId(line[i-1]) || i+len(w) < len(line) && isId(line[i+len(w)]) {
				continue
			}
			n++
		}
		return n
	}
	var out []string
	depth, par := 0, 0
	for _, raw := range strings.Split(body, "\n") {
		line := strings.TrimSpace(raw)
		if line == "" {
			continue
		}
		ind := 2*depth + 2*par
		switch {
		case strings.HasPrefix(line, "| "), strings.HasPrefix(line, "end"):
		case depth > 0:
			ind += 2
		}
		if len(out) > 0 {
			line = strings.Repeat(" ", 2+ind) + line
		}
		out = append(out, line)
		depth += words(line, "match") - words(line, "end")
		par += strings.Count(line, "(") - strings.Count(line, ")")
		if depth < 0 {
			depth = 0
		}
		if par < 0 {
			par = 0
		}
	}
	return strings.Join(out, "\n")
}

// assignedInPackage: is the package-level variable v ever written after its declaration (assigned, incremented,
// an element or field of it assigned, its address taken, ranged into)?
func assignedInPackage(p *packages.Package, v *types.Var) bool {
	root := func(e ast.Expr) *ast.Ident {
		for {
			switch z := e.(type) {
			case *ast.Ident:
				return z
			case *ast.IndexExpr:
				e = z.X
			case *ast.SelectorExpr:
				e = z.X
			case *ast.StarExpr:
				e = z.X
			case *ast.ParenExpr:
				e = z.X
			case *ast.SliceExpr:
				e = z.X
			default:
				return nil
			}
		}
	}
	is := func(e ast.Expr) bool {
		id := root(e)
		return id != nil && p.TypesInfo.ObjectOf(id) == v
	}
	found := false
	for _, f := range p.Syntax {
		ast.Inspect(f, func(n ast.Node) bool {
			switch z := n.(type) {
			case *ast.AssignStmt:
				for _, l := range z.Lhs {
					if is(l) {
						found = true
					}
				}
			case *ast.IncDecStmt:
				if is(z.X) {
					found = true
				}
			case *ast.UnaryExpr:
				if z.Op == token.AND && is(z.X) {
					found = true
				}
			case *ast.RangeStmt:
				if (z.Key != nil && is(z.Key)) || (z.Value != nil && is(z.Value)) {
					found = true
				}
			case *ast.CallExpr:
				// copy(v, ..) / append(v[:0], ..) write through the slice
				if id, ok := z.Fun.(*ast.Ident); ok && (id.Name == "copy" || id.Name == "append") && len(z.Args) > 0 && is(z.Args[0]) {
					found = true
				}
			}
			return !found
		})
	}
	return found
}
