package main

// Translator for the decision fragment (DESIGN.md appendix B): straight-line
// code with if / switch-on-constants / map lookup with ok / last-wins range
// loops / early returns, over integers, booleans and strings.

import (
	"fmt"
	"go/ast"
	"go/constant"
	"go/token"
	"go/types"
	"strings"

	"golang.org/x/tools/go/packages"
)

type target struct {
	pkg     func() *packages.Package
	recv    string
	fn      string
	coq     string            // name of the generated definition
	params  []string          // Coq binders, in order, e.g. "(level : Z)"
	result  string            // Coq result type
	final   string            // result expression at fall-through / bare return
	opaque  map[string]string // source text -> Coq term
	only    map[string]bool   // if set: assignments to other receiver fields are ignored
	from    func(stmts []ast.Stmt) []ast.Stmt
	cond    func(fd *ast.FuncDecl) ast.Expr // translate one condition instead of a body
	comment string
	fallback string
}

type untranslatable struct{ why string }

type tr struct {
	t     *target
	p     *packages.Package
	fd    *ast.FuncDecl
	recv  string
	free  map[string]bool
	notes []string
}

func (x *tr) bad(n ast.Node, why string) {
	panic(untranslatable{fmt.Sprintf("%s: %s: %s", fset.Position(n.Pos()), why, clip(src(n)))})
}
func clip(s string) string {
	s = strings.ReplaceAll(s, "\n", " ")
	if len(s) > 70 {
		return s[:70] + "..."
	}
	return s
}

func sanitize(s string) string {
	var sb strings.Builder
	for _, c := range s {
		if c >= 'a' && c <= 'z' || c >= 'A' && c <= 'Z' || c >= '0' && c <= '9' || c == '_' {
			sb.WriteRune(c)
		} else if c == '.' {
			sb.WriteRune('_')
		}
	}
	return sb.String()
}

func (x *tr) kindOf(e ast.Expr) string {
	tv, ok := x.p.TypesInfo.Types[e]
	if !ok {
		return "?"
	}
	return kindOfType(tv.Type)
}
func kindOfType(t types.Type) string {
	switch u := t.Underlying().(type) {
	case *types.Basic:
		switch {
		case u.Info()&types.IsBoolean != 0:
			return "bool"
		case u.Info()&types.IsInteger != 0:
			return "Z"
		case u.Info()&types.IsString != 0:
			return "bytes"
		}
	case *types.Slice:
		return "list " + kindOfType(u.Elem())
	}
	return "?"
}

func (x *tr) use(v string) string { x.free[v] = true; return v }

func (x *tr) expr(e ast.Expr) string {
	if t, ok := x.t.opaque[src(e)]; ok {
		return t
	}
	if tv, ok := x.p.TypesInfo.Types[e]; ok && tv.Value != nil {
		switch tv.Value.Kind() {
		case constant.Int:
			return cZ(tv.Value.ExactString())
		case constant.Bool:
			return fmt.Sprint(constant.BoolVal(tv.Value))
		case constant.String:
			return cBytes(constant.StringVal(tv.Value))
		}
	}
	switch z := e.(type) {
	case *ast.ParenExpr:
		return "(" + x.expr(z.X) + ")"
	case *ast.Ident:
		switch z.Name {
		case "true", "false":
			return z.Name
		}
		if obj := x.p.TypesInfo.Uses[z]; obj != nil {
			if v, ok := obj.(*types.Var); ok && v.Parent() == x.p.Types.Scope() {
				return x.use("g_" + z.Name) // package-level variable
			}
		}
		return x.use(z.Name)
	case *ast.SelectorExpr:
		return x.use(sanitize(src(z)))
	case *ast.UnaryExpr:
		switch z.Op {
		case token.NOT:
			return "(negb " + x.expr(z.X) + ")"
		case token.SUB:
			return "(- " + x.expr(z.X) + ")"
		}
	case *ast.BinaryExpr:
		if src(z.Y) == "nil" && (z.Op == token.EQL || z.Op == token.NEQ) {
			r := "(is_nil " + x.expr(z.X) + ")"
			if z.Op == token.NEQ {
				r = "(negb " + r + ")"
			}
			return r
		}
		a, b := x.expr(z.X), x.expr(z.Y)
		k := x.kindOf(z.X)
		switch z.Op {
		case token.LAND:
			return "(" + a + " && " + b + ")"
		case token.LOR:
			return "(" + a + " || " + b + ")"
		case token.EQL, token.NEQ:
			var eq string
			switch k {
			case "Z":
				eq = "(" + a + " =? " + b + ")"
			case "bool":
				eq = "(Bool.eqb " + a + " " + b + ")"
			case "bytes":
				eq = "(bytes_eqb " + a + " " + b + ")"
			default:
				if src(z.Y) == "nil" {
					eq = "(is_nil " + a + ")"
				} else {
					x.bad(z, "comparison of unsupported type")
				}
			}
			if z.Op == token.NEQ {
				return "(negb " + eq + ")"
			}
			return eq
		case token.LSS:
			return "(" + a + " <? " + b + ")"
		case token.LEQ:
			return "(" + a + " <=? " + b + ")"
		case token.GTR:
			return "(" + b + " <? " + a + ")"
		case token.GEQ:
			return "(" + b + " <=? " + a + ")"
		case token.AND:
			return "(Z.land " + a + " " + b + ")"
		case token.OR:
			return "(Z.lor " + a + " " + b + ")"
		case token.ADD:
			return "(" + a + " + " + b + ")"
		case token.SUB:
			return "(" + a + " - " + b + ")"
		}
	case *ast.CallExpr:
		s := src(z)
		switch {
		case s == "states.Env().GetDebugMode()" || s == "is.DebugMode()":
			return x.use("g_debugmode")
		case s == "is.TraceMode()":
			return x.use("g_tracemode")
		}
		name := calleeName(z)
		switch name {
		case "IsAnyBitsSet":
			return "(negb (Z.land " + x.use("g_flags") + " " + x.expr(z.Args[0]) + " =? 0))"
		case "IsAllBitsSet":
			a := x.expr(z.Args[0])
			return "(Z.land " + x.use("g_flags") + " " + a + " =? " + a + ")"
		case "Level":
			if len(z.Args) == 0 {
				if se, ok := z.Fun.(*ast.SelectorExpr); ok {
					return x.use(sanitize(src(se.X)) + "_level")
				}
			}
			if len(z.Args) == 1 {
				return x.expr(z.Args[0]) // conversion Level(x)
			}
		case "EnabledContext", "Enabled":
			return "(" + x.use("f_enabled") + " " + x.expr(z.Args[len(z.Args)-1]) + ")"
		case "int", "int64", "uint64", "Flags":
			if len(z.Args) == 1 {
				return x.expr(z.Args[0])
			}
		case "len":
			return "(Z.of_nat (length " + x.expr(z.Args[0]) + "))"
		}
	}
	x.bad(e, "expression outside the fragment")
	return ""
}

func (x *tr) lhsName(e ast.Expr) (string, bool) {
	switch z := e.(type) {
	case *ast.Ident:
		if z.Name == "_" {
			return "", false
		}
		if obj := x.p.TypesInfo.ObjectOf(z); obj != nil {
			if v, ok := obj.(*types.Var); ok && v.Parent() == x.p.Types.Scope() {
				return "g_" + z.Name, true
			}
		}
		return z.Name, true
	case *ast.SelectorExpr:
		return sanitize(src(z)), true
	}
	return "", false
}

func zeroOf(k string) string {
	switch k {
	case "Z":
		return "0"
	case "bool":
		return "false"
	case "bytes":
		return "(@nil byte)"
	}
	return "[]"
}

// assigned collects the names assigned anywhere in the statements
func (x *tr) assigned(stmts []ast.Stmt) []string {
	seen := map[string]bool{}
	var out []string
	for _, s := range stmts {
		ast.Inspect(s, func(n ast.Node) bool {
			if as, ok := n.(*ast.AssignStmt); ok {
				for _, l := range as.Lhs {
					if nm, ok := x.lhsName(l); ok && !seen[nm] {
						seen[nm] = true
						out = append(out, nm)
					}
				}
			}
			return true
		})
	}
	return out
}

func hasReturn(stmts []ast.Stmt) bool {
	found := false
	for _, s := range stmts {
		ast.Inspect(s, func(n ast.Node) bool {
			if _, ok := n.(*ast.ReturnStmt); ok {
				found = true
			}
			return true
		})
	}
	return found
}

func (x *tr) ignorable(lhs ast.Expr) bool {
	if x.t.only == nil {
		return false
	}
	if se, ok := lhs.(*ast.SelectorExpr); ok {
		if id, ok := se.X.(*ast.Ident); ok && id.Name == x.recv {
			return !x.t.only[se.Sel.Name]
		}
	}
	return false
}

func (x *tr) seq(stmts []ast.Stmt, k func() string) string {
	if len(stmts) == 0 {
		return k()
	}
	s := stmts[0]
	tail := func() string { return x.seq(stmts[1:], k) }
	switch z := s.(type) {
	case *ast.EmptyStmt:
		return tail()
	case *ast.BlockStmt:
		return x.seq(append(append([]ast.Stmt{}, z.List...), stmts[1:]...), k)
	case *ast.DeclStmt:
		gd := z.Decl.(*ast.GenDecl)
		if gd.Tok == token.VAR {
			out := ""
			for _, sp := range gd.Specs {
				vs := sp.(*ast.ValueSpec)
				for i, n := range vs.Names {
					val := ""
					if i < len(vs.Values) {
						val = x.expr(vs.Values[i])
					} else {
						val = zeroOf(kindOfType(x.p.TypesInfo.Defs[n].Type()))
					}
					out += fmt.Sprintf("let %s := %s in\n  ", n.Name, val)
				}
			}
			return out + tail()
		}
	case *ast.AssignStmt:
		if len(z.Lhs) == 1 && len(z.Rhs) == 1 {
			if x.ignorable(z.Lhs[0]) {
				x.notes = append(x.notes, "ignored (untracked field): "+clip(src(z)))
				return tail()
			}
			nm, ok := x.lhsName(z.Lhs[0])
			if !ok {
				return tail()
			}
			rhs := ""
			switch z.Tok {
			case token.ASSIGN, token.DEFINE:
				rhs = x.expr(z.Rhs[0])
			case token.OR_ASSIGN:
				rhs = "(Z.lor " + x.use(nm) + " " + x.expr(z.Rhs[0]) + ")"
			default:
				x.bad(z, "assignment operator")
			}
			return fmt.Sprintf("let %s := %s in\n  %s", nm, rhs, tail())
		}
		if len(z.Lhs) == len(z.Rhs) && len(z.Lhs) >= 2 && (z.Tok == token.ASSIGN || z.Tok == token.DEFINE) {
			// parallel assignment a, b, ... = x, y, ...: the right-hand sides are evaluated first;
			// untracked fields on the left are dropped with their (pure) right-hand sides
			var names, vals []string
			okAll := true
			for i := range z.Lhs {
				if x.ignorable(z.Lhs[i]) {
					continue
				}
				nm, ok := x.lhsName(z.Lhs[i])
				if !ok {
					okAll = false
					break
				}
				names = append(names, nm)
				vals = append(vals, x.expr(z.Rhs[i]))
			}
			if okAll {
				switch len(names) {
				case 0:
					x.notes = append(x.notes, "ignored (untracked fields): "+clip(src(z)))
					return tail()
				case 1:
					return fmt.Sprintf("let %s := %s in\n  %s", names[0], vals[0], tail())
				default:
					pat, tup := names[0], vals[0]
					for i := 1; i < len(names); i++ {
						pat, tup = "("+pat+", "+names[i]+")", "("+tup+", "+vals[i]+")"
					}
					return fmt.Sprintf("let '%s := %s in\n  %s", pat, tup, tail())
				}
			}
		}
		x.bad(z, "assignment form")
	case *ast.ReturnStmt:
		if len(z.Results) == 0 {
			return x.t.final
		}
		if id, ok := z.Results[0].(*ast.Ident); ok && id.Name == x.recv {
			return x.t.final
		}
		if len(z.Results) == 1 {
			return x.expr(z.Results[0])
		}
		var parts []string
		for _, r := range z.Results {
			parts = append(parts, x.expr(r))
		}
		return "(" + strings.Join(parts, ", ") + ")"
	case *ast.ExprStmt:
		if c, ok := z.X.(*ast.CallExpr); ok {
			switch src(c.Fun) {
			case "panic":
				return "ActPanic"
			case "os.Exit":
				return "(ActExit " + x.expr(c.Args[0]) + ")"
			case "is.SetDebugMode":
				return fmt.Sprintf("let g_debugmode := %s in\n  %s", x.expr(c.Args[0]), tail())
			case "is.SetTraceMode":
				return fmt.Sprintf("let g_tracemode := %s in\n  %s", x.expr(c.Args[0]), tail())
			}
		}
		x.bad(z, "call with unknown effect")
	case *ast.IfStmt:
		if z.Init != nil {
			as, ok := z.Init.(*ast.AssignStmt)
			if ok && len(as.Lhs) == 2 && len(as.Rhs) == 1 {
				if ix, ok := as.Rhs[0].(*ast.IndexExpr); ok {
					v, _ := x.lhsName(as.Lhs[0])
					okName := src(as.Lhs[1])
					neg := false
					switch c := z.Cond.(type) {
					case *ast.Ident:
						if c.Name != okName {
							x.bad(z, "map lookup condition")
						}
					case *ast.UnaryExpr:
						if c.Op != token.NOT || src(c.X) != okName {
							x.bad(z, "map lookup condition")
						}
						neg = true
					case *ast.BinaryExpr: // ok && len(ed) > 0 style
						x.bad(z, "compound map lookup condition")
					}
					m := x.expr(ix.X)
					if !strings.HasPrefix(m, "g_") {
						x.bad(z, "lookup in something that is not a package table")
					}
					m = "m_" + m[2:]
					delete(x.free, "g_"+m[2:])
					x.use(m)
					look := "lookupZ"
					if x.kindOf(ix.Index) == "bytes" {
						look = "lookupB"
					}
					vk := kindOfType(x.p.TypesInfo.TypeOf(as.Lhs[0]))
					rest := append([]ast.Stmt{}, stmts[1:]...)
					var els []ast.Stmt
					if b, ok := z.Else.(*ast.BlockStmt); ok {
						els = b.List
					} else if z.Else != nil {
						els = []ast.Stmt{z.Else}
					}
					found, missing := z.Body.List, els
					if neg {
						found, missing = els, z.Body.List
					}
					bind := v
					if v == "" {
						bind = "_"
					}
					some := x.seq(append(append([]ast.Stmt{}, found...), rest...), k)
					none := x.seq(append(append([]ast.Stmt{}, missing...), rest...), k)
					if v != "" {
						none = fmt.Sprintf("let %s := %s in %s", v, zeroOf(vk), none)
					}
					return fmt.Sprintf("match %s %s %s with\n  | Some %s => %s\n  | None => %s\n  end", look, m, x.expr(ix.Index), bind, some, none)
				}
			}
			x.bad(z, "if with init")
		}
		rest := stmts[1:]
		var els []ast.Stmt
		if b, ok := z.Else.(*ast.BlockStmt); ok {
			els = b.List
		} else if z.Else != nil {
			els = []ast.Stmt{z.Else}
		}
		c := x.expr(z.Cond)
		th := x.seq(append(append([]ast.Stmt{}, z.Body.List...), rest...), k)
		el := x.seq(append(append([]ast.Stmt{}, els...), rest...), k)
		return fmt.Sprintf("if %s\n  then %s\n  else %s", c, th, el)
	case *ast.SwitchStmt:
		if z.Init != nil || z.Tag == nil {
			x.bad(z, "switch form")
		}
		tag := x.expr(z.Tag)
		rest := stmts[1:]
		var def []ast.Stmt
		type arm struct {
			cond string
			body []ast.Stmt
		}
		var arms []arm
		for _, c := range z.Body.List {
			cc := c.(*ast.CaseClause)
			for _, st := range cc.Body {
				if br, ok := st.(*ast.BranchStmt); ok && br.Tok == token.FALLTHROUGH {
					x.bad(z, "fallthrough")
				}
			}
			if cc.List == nil {
				def = cc.Body
				continue
			}
			var cs []string
			for _, e := range cc.List {
				cs = append(cs, "("+tag+" =? "+x.expr(e)+")")
			}
			arms = append(arms, arm{strings.Join(cs, " || "), cc.Body})
		}
		out := x.seq(append(append([]ast.Stmt{}, def...), rest...), k)
		for i := len(arms) - 1; i >= 0; i-- {
			b := x.seq(append(append([]ast.Stmt{}, arms[i].body...), rest...), k)
			out = fmt.Sprintf("if %s then %s\n  else %s", arms[i].cond, b, out)
		}
		return out
	case *ast.RangeStmt:
		if z.Value == nil {
			x.bad(z, "range form")
		}
		el := src(z.Value)
		coll := x.expr(z.X)
		as := x.assigned(z.Body.List)
		if hasReturn(z.Body.List) {
			// search loop: for _, v := range xs { if c { return e } }
			if len(z.Body.List) == 1 {
				if ifs, ok := z.Body.List[0].(*ast.IfStmt); ok && ifs.Init == nil && ifs.Else == nil && len(ifs.Body.List) == 1 {
					if rs, ok := ifs.Body.List[0].(*ast.ReturnStmt); ok {
						c := x.expr(ifs.Cond)
						delete(x.free, el)
						var parts []string
						for _, r := range rs.Results {
							if src(r) == "nil" {
								parts = append(parts, "None")
							} else if _, isCall := r.(*ast.CallExpr); isCall {
								parts = append(parts, "ErrVal")
							} else {
								parts = append(parts, x.expr(r))
							}
						}
						return fmt.Sprintf("if existsb (fun %s => %s) %s then %s\n  else %s", el, c, coll, strings.Join(parts, ", "), tail())
					}
				}
			}
			x.bad(z, "loop with return")
		}
		if len(as) != 1 {
			x.bad(z, "loop assigning other than one variable")
		}
		acc := as[0]
		body := x.seq(z.Body.List, func() string { return acc })
		delete(x.free, el)
		elk := "_"
		if k := x.kindOf(z.X); strings.HasPrefix(k, "list ") {
			elk = k[5:]
			if strings.Contains(elk, " ") {
				elk = "(" + elk + ")"
			}
		}
		return fmt.Sprintf("let %s := fold_left (fun %s (%s : %s) => %s) %s %s in\n  %s", acc, acc, el, elk, body, coll, x.use(acc), tail())
	}
	x.bad(s, "statement outside the fragment")
	return ""
}

func translate(t *target) (def string, ok bool, why string) {
	p := t.pkg()
	fd := findFunc(p, t.recv, t.fn)
	if fd == nil {
		return "", false, "function not found"
	}
	x := &tr{t: t, p: p, fd: fd, free: map[string]bool{}}
	if fd.Recv != nil && len(fd.Recv.List[0].Names) > 0 {
		x.recv = fd.Recv.List[0].Names[0].Name
	}
	defer func() {
		if r := recover(); r != nil {
			if u, isU := r.(untranslatable); isU {
				def, ok, why = "", false, u.why
				return
			}
			panic(r)
		}
	}()
	var body string
	if t.cond != nil {
		c := t.cond(fd)
		if c == nil {
			return "", false, "condition not found"
		}
		body = x.expr(c)
	} else {
		stmts := fd.Body.List
		if t.from != nil {
			stmts = t.from(stmts)
			if stmts == nil {
				return "", false, "start statement not found"
			}
		}
		body = x.seq(stmts, func() string { return t.final })
	}
	// every free variable must be a declared binder
	declared := map[string]bool{}
	for _, b := range t.params {
		nm := strings.TrimSpace(strings.Split(strings.Trim(b, "()"), ":")[0])
		for _, n := range strings.Fields(nm) {
			declared[n] = true
		}
	}
	for v := range x.free {
		if !declared[v] {
			// variables bound by let inside the body are fine: check textual binding
			if !strings.Contains(body, "let "+v+" :=") && !strings.Contains(body, "fun "+v+" ") &&
				!strings.Contains(body, " "+v+" =>") && !strings.Contains(body, "Some "+v+" ") &&
				!strings.Contains(body, "("+v+", ") && !strings.Contains(body, ", "+v+")") {
				return "", false, "unexpected free variable " + v
			}
		}
	}
	notes := ""
	seenNote := map[string]bool{}
	for _, n := range x.notes {
		if seenNote[n] {
			continue
		}
		seenNote[n] = true
		notes += "   (* " + strings.ReplaceAll(n, "*)", "* )") + " *)\n"
	}
	return fmt.Sprintf("(* %s.%s  %s *)\n%sDefinition %s %s : %s :=\n  %s.\n", t.recv, t.fn, t.comment, notes, t.coq, strings.Join(t.params, " "), t.result, body), true, ""
}
