// extract: re-reads /repo's working tree and writes coq/Gen/*.v
//
//	Tables.v       every literal table / constant the models depend on
//	EntryPoints.v  one row per public log-issuing function or method
//	Decisions.v    Gallina translations of the small decision functions
//	PanicSites.v   panic( / os.Exit( / single-value type assertions per function
//	CallerSites.v  getpc's runtime.Callers argument and the two adapter sites (callersites.go)
//
// A file is rewritten only when its content changes (so make stays a no-op on
// an unchanged tree).  Status goes to /verif/run/extract_status.json.
package main

import (
	"encoding/json"
	"flag"
	"fmt"
	"go/ast"
	"go/constant"
	"go/printer"
	"go/token"
	"go/types"
	"os"
	"path/filepath"
	"sort"
	"strings"

	"golang.org/x/tools/go/packages"
)

var (
	fset   *token.FileSet
	pSlog  *packages.Package
	pTimes *packages.Package
	status = map[string]any{"sites": map[string]string{}}
)

func site(name, st string) { status["sites"].(map[string]string)[name] = st }

func src(n ast.Node) string {
	var sb strings.Builder
	printer.Fprint(&sb, fset, n)
	return sb.String()
}

func main() {
	repo := flag.String("repo", "/repo", "repository root")
	out := flag.String("out", "/verif/coq/Gen", "output directory")
	flag.StringVar(&statusPath, "status", "/verif/run/extract_status.json", "status file")
	flag.Parse()
	cfg := &packages.Config{
		Mode: packages.NeedName | packages.NeedFiles | packages.NeedSyntax | packages.NeedTypes | packages.NeedTypesInfo | packages.NeedImports | packages.NeedDeps,
		Dir:  *repo, Env: append(os.Environ(), "GOFLAGS=-mod=readonly", "GOWORK=off"),
	}
	pkgs, err := packages.Load(cfg, "./slog", "./slog/internal/times")
	if err != nil {
		fail("load: " + err.Error())
	}
	for _, p := range pkgs {
		if len(p.Errors) > 0 {
			fail(fmt.Sprint("package errors: ", p.Errors))
		}
		if strings.HasSuffix(p.PkgPath, "/times") {
			pTimes = p
		} else {
			pSlog = p
		}
	}
	fset = pSlog.Fset
	if abs, err := filepath.Abs(*repo); err == nil {
		repoRoot = abs
	}
	os.MkdirAll(*out, 0o755)
	writeIfChanged(filepath.Join(*out, "Tables.v"), genTables())
	writeIfChanged(filepath.Join(*out, "EntryPoints.v"), genEntryPoints())
	for _, gf := range genFiles {
		writeIfChanged(filepath.Join(*out, gf[0]+".v"), genDecisions(gf[0], gf[1]))
	}
	writeIfChanged(filepath.Join(*out, "PanicSites.v"), genPanicSites())
	writeIfChanged(filepath.Join(*out, "CallerSites.v"), genCallerSites())
	writeIfChanged(filepath.Join(*out, "PrintCtxFields.v"), genPrintCtxFields())
	b, _ := json.MarshalIndent(status, "", " ")
	os.MkdirAll(filepath.Dir(statusPath), 0o755)
	os.WriteFile(statusPath, b, 0o644)
}

var statusPath string

func fail(msg string) {
	status["error"] = msg
	b, _ := json.MarshalIndent(status, "", " ")
	os.MkdirAll(filepath.Dir(statusPath), 0o755)
	os.WriteFile(statusPath, b, 0o644)
	fmt.Fprintln(os.Stderr, "extract:", msg)
	os.Exit(1)
}

func writeIfChanged(path, content string) {
	old, err := os.ReadFile(path)
	if err == nil && string(old) == content {
		return
	}
	if err := os.WriteFile(path, []byte(content), 0o644); err != nil {
		fail(err.Error())
	}
	fmt.Println("regenerated", path)
}

// ---------------------------------------------------------------- helpers

func cZ(s string) string {
	if strings.HasPrefix(s, "-") {
		return "(" + s + ")"
	}
	return s
}

func cBytes(s string) string {
	var sb strings.Builder
	sb.WriteByte('[')
	for i := 0; i < len(s); i++ {
		if i > 0 {
			sb.WriteByte(';')
		}
		fmt.Fprintf(&sb, "x%02x", s[i])
	}
	sb.WriteByte(']')
	return sb.String()
}

func constOf(p *packages.Package, e ast.Expr) (constant.Value, bool) {
	tv, ok := p.TypesInfo.Types[e]
	if !ok || tv.Value == nil {
		return nil, false
	}
	return tv.Value, true
}

// lit renders a constant expression or a composite literal as a Gallina term.
func lit(p *packages.Package, e ast.Expr) (string, bool) {
	if v, ok := constOf(p, e); ok {
		switch v.Kind() {
		case constant.Int:
			return cZ(v.ExactString()), true
		case constant.String:
			return cBytes(constant.StringVal(v)), true
		case constant.Bool:
			return fmt.Sprint(constant.BoolVal(v)), true
		}
		return "", false
	}
	cl, ok := e.(*ast.CompositeLit)
	if !ok {
		return "", false
	}
	var items []string
	for _, el := range cl.Elts {
		if kv, ok := el.(*ast.KeyValueExpr); ok {
			k, ok1 := lit(p, kv.Key)
			v, ok2 := lit(p, kv.Value)
			if !ok1 || !ok2 {
				return "", false
			}
			items = append(items, "("+k+", "+v+")")
		} else {
			v, ok := lit(p, el)
			if !ok {
				return "", false
			}
			items = append(items, v)
		}
	}
	return "[" + strings.Join(items, "; ") + "]", true
}

func findVar(p *packages.Package, name string) ast.Expr {
	for _, f := range p.Syntax {
		for _, d := range f.Decls {
			gd, ok := d.(*ast.GenDecl)
			if !ok || gd.Tok != token.VAR {
				continue
			}
			for _, s := range gd.Specs {
				vs := s.(*ast.ValueSpec)
				for i, n := range vs.Names {
					if n.Name == name && i < len(vs.Values) {
						return vs.Values[i]
					}
				}
			}
		}
	}
	return nil
}

func findFunc(p *packages.Package, recv, name string) *ast.FuncDecl {
	for _, f := range p.Syntax {
		if strings.HasSuffix(fset.Position(f.Pos()).Filename, "_test.go") {
			continue
		}
		for _, d := range f.Decls {
			fd, ok := d.(*ast.FuncDecl)
			if !ok || fd.Name.Name != name || fd.Body == nil {
				continue
			}
			r := ""
			if fd.Recv != nil {
				t := fd.Recv.List[0].Type
				if st, ok := t.(*ast.StarExpr); ok {
					t = st.X
				}
				r = src(t)
			}
			if r == recv {
				return fd
			}
		}
	}
	return nil
}

// ---------------------------------------------------------------- Tables.v

func genTables() string {
	var sb strings.Builder
	sb.WriteString("(* GENERATED from /repo by /verif/extract - do not edit.  Literal tables and constants. *)\nRequire Import Verif.Model.Base.\n\n")
	// every constant of type Level, Flags, log/slog.Level declared in package slog
	scope := pSlog.Types.Scope()
	names := scope.Names()
	sort.Strings(names)
	for _, n := range names {
		c, ok := scope.Lookup(n).(*types.Const)
		if !ok {
			continue
		}
		if strings.HasSuffix(fset.Position(c.Pos()).Filename, "_test.go") {
			continue
		}
		t := c.Type().String()
		switch {
		case strings.HasSuffix(t, "slog.Level") || strings.HasSuffix(t, "slog.Flags") || strings.HasSuffix(t, "color.Color"):
			fmt.Fprintf(&sb, "Definition c_%s : Z := %s.\n", n, cZ(c.Val().ExactString()))
		case c.Val().Kind() == constant.Int && (t == "untyped int" || t == "int"):
			fmt.Fprintf(&sb, "Definition c_%s : Z := %s.\n", n, cZ(c.Val().ExactString()))
		case c.Val().Kind() == constant.String:
			fmt.Fprintf(&sb, "Definition c_%s : bytes := %s.\n", n, cBytes(constant.StringVal(c.Val())))
		}
	}
	sb.WriteString("\n")
	tbl := func(p *packages.Package, name, typ string) {
		e := findVar(p, name)
		if e == nil {
			fmt.Fprintf(&sb, "(* table %s not found *)\n", name)
			site("table:"+name, "missing")
			return
		}
		s, ok := lit(p, e)
		if !ok {
			fmt.Fprintf(&sb, "(* table %s is not a literal *)\n", name)
			site("table:"+name, "not-literal")
			return
		}
		fmt.Fprintf(&sb, "Definition t_%s : %s :=\n  %s.\n", name, typ, s)
		site("table:"+name, "ok")
	}
	tbl(pSlog, "allLevels", "list Z")
	tbl(pSlog, "levelToString", "list (Z * bytes)")
	tbl(pSlog, "stringToLevel", "list (bytes * Z)")
	tbl(pSlog, "shortTagMap", "list (Z * list (Z * bytes))")
	tbl(pSlog, "mLevelIsEnabledAs", "list (Z * Z)")
	tbl(pSlog, "mLevelUseErrorDevice", "list (Z * bool)")
	tbl(pSlog, "mLevelColors", "list (Z * list Z)")
	tbl(pSlog, "mLevelToLogSlog", "list (Z * Z)")
	tbl(pSlog, "mLogSlogLevelToLevel", "list (Z * Z)")
	tbl(pSlog, "defaultLayouts", "list (Z * bytes)")
	tbl(pSlog, "flags", "Z")
	tbl(pSlog, "minimalMessageWidth", "Z")
	tbl(pSlog, "levelOutputWidth", "Z")
	tbl(pSlog, "hex", "bytes")
	tbl(pSlog, "safeSet", "list (Z * bool)")
	tbl(pTimes, "unitMap", "list (bytes * Z)")
	// size of the fixed array of the short duration formatter
	if fd := findFunc(pTimes, "", "shortDur"); fd != nil {
		ast.Inspect(fd, func(n ast.Node) bool {
			if at, ok := n.(*ast.ArrayType); ok && at.Len != nil {
				if v, ok := constOf(pTimes, at.Len); ok {
					fmt.Fprintf(&sb, "Definition t_shortDurBufSize : Z := %s.\n", v.ExactString())
					site("table:shortDurBufSize", "ok")
				}
				return false
			}
			return true
		})
	}
	return sb.String()
}

// ---------------------------------------------------------------- EntryPoints.v

type helperFacts struct {
	gated bool   // the call that reaches logContext is dominated by EnabledContext on the same level
	skip  string // Go expression given to getpc
	depth int    // logg frames from (and including) this function down to the caller of getpc
}

func calleeName(c *ast.CallExpr) string {
	switch fx := c.Fun.(type) {
	case *ast.Ident:
		return fx.Name
	case *ast.SelectorExpr:
		return fx.Sel.Name
	}
	return ""
}

// analyseBody finds, in a function body, the (first) call of one of the sinks
// and reports how it is guarded.
type sinkCall struct {
	name  string
	call  *ast.CallExpr
	gates []string // texts X of enclosing `if recv.EnabledContext(ctx, X)` / Enabled(X)
	getpc string   // literal passed to getpc / runtime.Callers in the same block, if any
}

func findSinks(body *ast.BlockStmt, sinks map[string]bool) []sinkCall {
	var out []sinkCall
	var walk func(stmts []ast.Stmt, gates []string)
	walk = func(stmts []ast.Stmt, gates []string) {
		getpc := ""
		for _, s := range stmts {
			ast.Inspect(s, func(n ast.Node) bool {
				if c, ok := n.(*ast.CallExpr); ok {
					if nm := calleeName(c); nm == "getpc" && len(c.Args) > 0 {
						getpc = src(c.Args[0])
					} else if nm == "Callers" && len(c.Args) > 0 {
						getpc = "callers:" + src(c.Args[0])
					}
				}
				_, isIf := n.(*ast.IfStmt)
				_, isSw := n.(*ast.TypeSwitchStmt)
				return !isIf && !isSw
			})
			switch x := s.(type) {
			case *ast.IfStmt:
				g := gates
				if c, ok := x.Cond.(*ast.CallExpr); ok {
					if nm := calleeName(c); (nm == "EnabledContext" || nm == "Enabled") && len(c.Args) > 0 {
						g = append(append([]string{}, gates...), src(c.Args[len(c.Args)-1]))
					}
				}
				walk(x.Body.List, g)
				if b, ok := x.Else.(*ast.BlockStmt); ok {
					walk(b.List, gates)
				}
			case *ast.TypeSwitchStmt:
				for _, cc := range x.Body.List {
					walk(cc.(*ast.CaseClause).Body, gates)
				}
			case *ast.SwitchStmt:
				for _, cc := range x.Body.List {
					walk(cc.(*ast.CaseClause).Body, gates)
				}
			case *ast.BlockStmt:
				walk(x.List, gates)
			default:
				ast.Inspect(s, func(n ast.Node) bool {
					if c, ok := n.(*ast.CallExpr); ok && sinks[calleeName(c)] {
						out = append(out, sinkCall{name: calleeName(c), call: c, gates: gates, getpc: getpc})
					}
					return true
				})
			}
		}
	}
	walk(body.List, nil)
	return out
}

func genEntryPoints() string {
	var sb strings.Builder
	sb.WriteString("(* GENERATED from /repo by /verif/extract - do not edit.  Public log-issuing entry points. *)\nRequire Import Verif.Model.Base Verif.Model.EntryPoint.\n\n")
	info := pSlog.TypesInfo
	sinks := map[string]bool{"logContext": true, "log1": true, "logctx": true, "logctxctx": true, "vlogctx": true,
		"print": true, "writeInternal": true, "WriteInternal": true, "WriteThru": true}
	type row struct{ recv, name, sev, gated, skip, depth, via string }
	var rows []row
	levelConst := func(e ast.Expr) (string, bool) {
		if v, ok := constOf(pSlog, e); ok && v.Kind() == constant.Int {
			return cZ(v.ExactString()), true
		}
		return "", false
	}
	// resolve a sink call reached from function fd into (sev, gated, skip, depth, via); recursion through helpers
	var resolve func(fd *ast.FuncDecl, env map[string]ast.Expr, depth int) (sev, gated, skip, dep, via string, ok bool)
	resolve = func(fd *ast.FuncDecl, env map[string]ast.Expr, depth int) (string, string, string, string, string, bool) {
		if len(fd.Body.List) == 0 {
			return "SevNone", "true", "0", "0", "empty", true
		}
		sc := findSinks(fd.Body, sinks)
		if len(sc) == 0 {
			return "", "", "", "", "", false
		}
		c := sc[len(sc)-1] // the type switch of logctxctx has two identical arms; Println has two calls: take the general one
		subst := func(e ast.Expr) ast.Expr {
			if id, ok := e.(*ast.Ident); ok {
				if v, ok := env[id.Name]; ok {
					return v
				}
			}
			return e
		}
		sevOf := func(e ast.Expr) string {
			e = subst(e)
			if s, ok := levelConst(e); ok {
				return "(SevConst " + s + ")"
			}
			if tv, ok := info.Types[e]; ok && strings.HasSuffix(tv.Type.String(), "slog.Level") {
				if _, isCall := e.(*ast.CallExpr); isCall {
					return "SevSlog"
				}
				// a local variable assigned from a conversion of a log/slog level?
				if id, ok := e.(*ast.Ident); ok {
					conv := false
					ast.Inspect(fd.Body, func(n ast.Node) bool {
						if as, ok := n.(*ast.AssignStmt); ok && len(as.Lhs) == 1 && len(as.Rhs) == 1 {
							if l, ok := as.Lhs[0].(*ast.Ident); ok && l.Name == id.Name {
								if cc, ok := as.Rhs[0].(*ast.CallExpr); ok {
									nm := calleeName(cc)
									if nm == "logsloglevel2Level" || nm == "convertLogSlogLevel" {
										conv = true
									}
								}
								if v, ok := levelConst(as.Rhs[0]); ok {
									_ = v
								}
							}
						}
						return true
					})
					if conv {
						return "SevSlog"
					}
					// a local initialised with a constant (Infof: lvl := InfoLevel)
					var cst string
					ast.Inspect(fd.Body, func(n ast.Node) bool {
						if as, ok := n.(*ast.AssignStmt); ok && len(as.Lhs) == 1 && len(as.Rhs) == 1 {
							if l, ok := as.Lhs[0].(*ast.Ident); ok && l.Name == id.Name {
								if v, ok := levelConst(as.Rhs[0]); ok {
									cst = v
								}
							}
						}
						return true
					})
					if cst != "" {
						return "(SevConst " + cst + ")"
					}
				}
				return "SevParam"
			}
			return "SevParam"
		}
		switch c.name {
		case "logContext":
			lv := c.call.Args[1]
			g := "false"
			for _, gt := range c.gates {
				if gt == src(lv) {
					g = "true"
				}
			}
			skip := "0"
			if c.getpc != "" {
				e, err := parseIntExpr(c.getpc, env)
				if err == nil {
					skip = fmt.Sprint(e)
				} else {
					skip = "(-1)"
				}
			}
			return sevOf(lv), g, skip, fmt.Sprint(depth), "logContext", true
		case "vlogctx":
			h := findFunc(pSlog, "", "vlogctx")
			if h == nil || len(h.Body.List) == 0 {
				return "SevNone", "true", "0", "0", "vlogctx(empty)", true
			}
			return "SevParam", "false", "0", "0", "vlogctx", true
		case "log1", "logctx", "logctxctx":
			h := findFunc(pSlog, map[string]string{"log1": "Entry", "logctx": "", "logctxctx": ""}[c.name], c.name)
			if h == nil {
				return "", "", "", "", "", false
			}
			// bind the helper's parameters to the actual arguments
			env2 := map[string]ast.Expr{}
			i := 0
			for _, f := range h.Type.Params.List {
				for _, n := range f.Names {
					if i < len(c.call.Args) {
						env2[n.Name] = subst(c.call.Args[i])
					}
					i++
				}
			}
			sev, g, skip, dep, via, ok := resolve(h, env2, depth+1)
			return sev, g, skip, dep, c.name + ">" + via, ok
		case "print", "writeInternal", "WriteInternal", "WriteThru":
			return "SevParam", "false", "0", fmt.Sprint(depth), c.name, true
		}
		return "", "", "", "", "", false
	}
	for _, f := range pSlog.Syntax {
		if strings.HasSuffix(fset.Position(f.Pos()).Filename, "_test.go") {
			continue
		}
		for _, d := range f.Decls {
			fd, ok := d.(*ast.FuncDecl)
			if !ok || fd.Body == nil || !fd.Name.IsExported() {
				continue
			}
			recv := "pkg"
			if fd.Recv != nil {
				t := fd.Recv.List[0].Type
				if st, ok := t.(*ast.StarExpr); ok {
					t = st.X
				}
				recv = src(t)
				if recv != "Entry" {
					continue
				}
			}
			// signature filter: first non-context parameter is the message/format/level and there are no results
			// other than error; excludes constructors and setters that merely call an entry point
			if fd.Type.Results != nil {
				if len(fd.Type.Results.List) != 1 || src(fd.Type.Results.List[0].Type) != "error" {
					continue
				}
			}
			if fd.Type.Params == nil || len(fd.Type.Params.List) == 0 {
				continue
			}
			last := fd.Type.Params.List[len(fd.Type.Params.List)-1]
			if _, variadic := last.Type.(*ast.Ellipsis); !variadic {
				continue
			}
			sev, g, skip, dep, via, ok := resolve(fd, map[string]ast.Expr{}, 1)
			if !ok {
				continue
			}
			rows = append(rows, row{recv, fd.Name.Name, sev, g, skip, dep, via})
		}
	}
	sort.Slice(rows, func(i, j int) bool {
		if rows[i].recv != rows[j].recv {
			return rows[i].recv < rows[j].recv
		}
		return rows[i].name < rows[j].name
	})
	sb.WriteString("Definition entry_points : list ep := [\n")
	for i, r := range rows {
		sep := ";"
		if i == len(rows)-1 {
			sep = ""
		}
		// ep_tail: the call chain ends in Entry.logContext, i.e. the record goes through the termination tail (C12)
		tail := "false"
		if strings.HasSuffix(r.via, "logContext") {
			tail = "true"
		}
		fmt.Fprintf(&sb, "  mk_ep %s %s %s %s %s %s %s%s  (* %s.%s via %s *)\n", cBytes(r.recv), cBytes(r.name), r.sev, r.gated, r.skip, r.depth, tail, sep, r.recv, r.name, r.via)
	}
	sb.WriteString("].\n")
	status["entry_points"] = len(rows)
	return sb.String()
}


// parseIntExpr evaluates small integer expressions such as "2", "3+inc" with inc bound in env.
func parseIntExpr(s string, env map[string]ast.Expr) (int, error) {
	total := 0
	for _, part := range strings.Split(strings.ReplaceAll(s, " ", ""), "+") {
		var n int
		if _, err := fmt.Sscanf(part, "%d", &n); err == nil {
			total += n
			continue
		}
		if e, ok := env[part]; ok {
			if v, ok := constOf(pSlog, e); ok {
				if x, ok := constant.Int64Val(v); ok {
					total += int(x)
					continue
				}
			}
		}
		return 0, fmt.Errorf("cannot evaluate %q", s)
	}
	return total, nil
}

// ---------------------------------------------------------------- PanicSites.v

func genPanicSites() string {
	var sb strings.Builder
	sb.WriteString("(* GENERATED from /repo by /verif/extract - do not edit.\n   Every panic( call, os.Exit( call and single-value type assertion in the non-test files of package slog. *)\nRequire Import Verif.Model.Base.\n\n")
	type ps struct{ fn, kind string }
	var all []ps
	for _, f := range pSlog.Syntax {
		fname := fset.Position(f.Pos()).Filename
		if strings.HasSuffix(fname, "_test.go") {
			continue
		}
		for _, d := range f.Decls {
			fd, ok := d.(*ast.FuncDecl)
			if !ok || fd.Body == nil {
				continue
			}
			name := fd.Name.Name
			if fd.Recv != nil {
				t := fd.Recv.List[0].Type
				if st, ok := t.(*ast.StarExpr); ok {
					t = st.X
				}
				name = src(t) + "." + name
			}
			// type assertions that are the sole RHS of a 2-value assignment or in a type switch are safe
			safe := map[ast.Node]bool{}
			ast.Inspect(fd.Body, func(n ast.Node) bool {
				switch x := n.(type) {
				case *ast.AssignStmt:
					if len(x.Lhs) == 2 && len(x.Rhs) == 1 {
						if ta, ok := x.Rhs[0].(*ast.TypeAssertExpr); ok {
							safe[ta] = true
						}
					}
				case *ast.ValueSpec:
					if len(x.Names) == 2 && len(x.Values) == 1 {
						if ta, ok := x.Values[0].(*ast.TypeAssertExpr); ok {
							safe[ta] = true
						}
					}
				case *ast.TypeSwitchStmt:
					ast.Inspect(x.Assign, func(m ast.Node) bool {
						if ta, ok := m.(*ast.TypeAssertExpr); ok {
							safe[ta] = true
						}
						return true
					})
				}
				return true
			})
			ast.Inspect(fd.Body, func(n ast.Node) bool {
				switch x := n.(type) {
				case *ast.CallExpr:
					if id, ok := x.Fun.(*ast.Ident); ok && id.Name == "panic" {
						all = append(all, ps{name, "panic"})
					}
					if se, ok := x.Fun.(*ast.SelectorExpr); ok && se.Sel.Name == "Exit" {
						if id, ok := se.X.(*ast.Ident); ok && id.Name == "os" {
							all = append(all, ps{name, "exit"})
						}
					}
				case *ast.TypeAssertExpr:
					if x.Type != nil && !safe[x] {
						all = append(all, ps{name, "assert"})
					}
				}
				return true
			})
		}
	}
	sort.Slice(all, func(i, j int) bool {
		if all[i].fn != all[j].fn {
			return all[i].fn < all[j].fn
		}
		return all[i].kind < all[j].kind
	})
	sb.WriteString("Inductive site_kind := SPanic | SExit | SAssert.\n")
	sb.WriteString("Definition panic_sites : list (bytes * site_kind) := [\n")
	for i, s := range all {
		sep := ";"
		if i == len(all)-1 {
			sep = ""
		}
		k := map[string]string{"panic": "SPanic", "exit": "SExit", "assert": "SAssert"}[s.kind]
		fmt.Fprintf(&sb, "  (%s, %s)%s (* %s *)\n", cBytes(s.fn), k, sep, s.fn)
	}
	sb.WriteString("].\n")
	status["panic_sites"] = len(all)
	return sb.String()
}
