package main

import (
	"go/ast"
	"go/constant"
	"go/token"
	"strings"

	"golang.org/x/tools/go/packages"
)

func slogPkg() *packages.Package { return pSlog }

func containsText(n ast.Node, text string) bool { return strings.Contains(src(n), text) }

// containsNorm: the same with all white space removed on both sides
func containsNorm(n ast.Node, text string) bool {
	sq := func(t string) string { return strings.Join(strings.Fields(t), "") }
	return strings.Contains(sq(src(n)), sq(text))
}

func targets() []*target {
	return []*target{
		{pkg: slogPkg, recv: "Level", fn: "Enabled", coq: "enabled", fallback: "Level.enabled_code",
			params: []string{"(m_mLevelIsEnabledAs : list (Z * Z))", "(g_debugmode : bool)", "(level testingLevel : Z)"}, result: "bool", final: "false"},
		{pkg: slogPkg, recv: "Entry", fn: "SetJSONMode", coq: "set_json_mode", fallback: "DecisionRef.set_json_mode_ref",
			params: []string{"(s_useJSON s_useColor : bool)", "(b : list bool)"}, result: "bool * bool", final: "(s_useJSON, s_useColor)"},
		{pkg: slogPkg, recv: "Entry", fn: "SetColorMode", coq: "set_color_mode", fallback: "DecisionRef.set_color_mode_ref",
			params: []string{"(s_useJSON s_useColor : bool)", "(b : list bool)"}, result: "bool * bool", final: "(s_useJSON, s_useColor)"},
		{pkg: slogPkg, recv: "Entry", fn: "SetUTCMode", coq: "set_utc_mode", fallback: "DecisionRef.set_utc_mode_ref",
			params: []string{"(b : list bool)"}, result: "Z", final: "s_modeUTC"},
		{pkg: slogPkg, recv: "Entry", fn: "SetTimeFormat", coq: "set_time_format", fallback: "DecisionRef.set_time_format_ref",
			params: []string{"(layout : list bytes)"}, result: "bytes", final: "s_timeLayout"},
		{pkg: slogPkg, recv: "Entry", fn: "SetLevel", coq: "set_level", fallback: "DecisionRef.set_level_ref",
			params: []string{"(g_debugmode g_tracemode : bool)", "(lvl : Z)"}, result: "Z * bool * bool", final: "(s_level, g_debugmode, g_tracemode)"},
		{pkg: slogPkg, recv: "PrintCtx", fn: "setentry", coq: "pc_setentry", fallback: "DecisionRef.pc_setentry_ref",
			params: []string{"(e_useJSON e_useColor : bool)"}, result: "bool * bool", final: "(s_jsonMode, s_noColor)",
			only: map[string]bool{"jsonMode": true, "noColor": true}},
		{pkg: slogPkg, recv: "Entry", fn: "logContext", coq: "termination", fallback: "DecisionRef.termination_ref",
			params: []string{"(g_inTesting : bool)", "(g_flags : Z)", "(lvl : Z)"}, result: "action", final: "ActContinue",
			from: func(stmts []ast.Stmt) []ast.Stmt {
				for i, s := range stmts {
					// the first top-level `if` that can terminate (whatever its guard says)
					if ifs, ok := s.(*ast.IfStmt); ok && (containsText(ifs, "panic(") || containsText(ifs, "os.Exit(")) {
						return stmts[i:]
					}
				}
				return nil
			}, comment: "(the tail after print)"},
		{pkg: slogPkg, recv: "Entry", fn: "printOut", coq: "should_warn", fallback: "DecisionRef.should_warn_ref",
			params: []string{"(err : option unit)", "(lvl : Z)"}, result: "bool",
			cond: func(fd *ast.FuncDecl) (c ast.Expr) {
				ast.Inspect(fd.Body, func(n ast.Node) bool {
					if ifs, ok := n.(*ast.IfStmt); ok && containsText(ifs.Body, ".Warn(") && !containsText(ifs.Cond, "findWriter") {
						c = ifs.Cond
					}
					return true
				})
				return
			}, comment: "(condition of the nested diagnostic)"},
		{pkg: slogPkg, recv: "handlerWriter", fn: "Write", coq: "bridge_admit", fallback: "DecisionRef.bridge_admit_now",
			params: []string{"(f_enabled : Z -> bool)", "(s_lvl s_l_level : Z)"}, result: "bool",
			cond: func(fd *ast.FuncDecl) ast.Expr {
				if len(fd.Body.List) > 0 {
					if ifs, ok := fd.Body.List[0].(*ast.IfStmt); ok {
						return ifs.Cond
					}
				}
				return nil
			}, comment: "(admission test of the std-log bridge)"},
		{pkg: slogPkg, recv: "handler4LogSlog", fn: "Enabled", coq: "handler_enabled", fallback: "DecisionRef.handler_enabled_ref",
			params: []string{"(m_mLogSlogLevelToLevel : list (Z * Z))", "(f_enabled : Z -> bool)", "(lvl : Z)"}, result: "bool", final: "true"},
		{pkg: slogPkg, recv: "", fn: "convertLogSlogLevel", coq: "convert_logslog_level", fallback: "DecisionRef.convert_logslog_level_ref",
			params: []string{"(m_mLogSlogLevelToLevel : list (Z * Z))", "(lvl : Z)"}, result: "Z", final: "0"},
		{pkg: slogPkg, recv: "", fn: "convertLevelToLogSlog", coq: "convert_level_to_logslog", fallback: "DecisionRef.convert_level_to_logslog_ref",
			params: []string{"(m_mLevelToLogSlog : list (Z * Z))", "(lvl : Z)"}, result: "Z", final: "0"},
		{pkg: slogPkg, recv: "", fn: "logsloglevel2Level", coq: "logsloglevel2level", fallback: "DecisionRef.logsloglevel2level_ref",
			params: []string{"(level : Z)"}, result: "Z", final: "0"},
		{pkg: slogPkg, recv: "PrintCtx", fn: "appendTimestamp", coq: "zone_choice", fallback: "DecisionRef.zone_choice_ref",
			params: []string{"(s_utcTime : Z)", "(g_flags : Z)"}, result: "zone", final: "tm",
			opaque: map[string]string{"z.UTC()": "ZoneUTC", "z": "ZoneOwn"},
			from: func(stmts []ast.Stmt) []ast.Stmt {
				for i, s := range stmts {
					if ifs, ok := s.(*ast.IfStmt); ok && containsText(ifs.Cond, "utcTime") {
						return stmts[i : i+1]
					}
				}
				return nil
			}},
		{pkg: slogPkg, recv: "PrintCtx", fn: "appendTimestamp", coq: "layout_choice", fallback: "DecisionRef.layout_choice_ref",
			params: []string{"(m_defaultLayouts : list (Z * bytes))", "(s_layout : bytes)", "(g_flags : Z)"}, result: "bytes", final: "layout",
			from: func(stmts []ast.Stmt) []ast.Stmt {
				for i, s := range stmts {
					if ifs, ok := s.(*ast.IfStmt); ok && containsText(ifs.Cond, "s.layout") {
						if i > 0 {
							return stmts[i-1 : i+1] // the declaration of layout and the if
						}
					}
				}
				return nil
			}},

		// ---- second generation (strict: see the head of decisions.go) ----
		{pkg: slogPkg, recv: "dualWriter", fn: "Get", coq: "route", file: "Routing", strict: true, fallback: "GenRef.route_ref",
			comment: "(routing of a severity; writer lists are lists of members, s.leveled is a nil-able map)",
			tymap:   map[string]string{"LWs": "list member"},
			params:  []string{"(m_mLevelUseErrorDevice : list (Z * bool))", "(g_discardWriter s_Normal s_Error : list member)", "(s_leveled : gomap (list member))", "(lvl : Z)"},
			result:  "list member", final: "w"},

		// LWs.WriteLeveled / LWs.Write: a fold over the members; what the outside world does is an oracle:
		//   wres k            = (count, failed) of the k-th Write attempt of the history
		//   as_T_of_S         = the type assertion v.(T) on a value of static type S (Some = it holds)
		//   fld_Writer        = the field Writer of a *logwr cell
		// effects are threaded as tr_ (the trace of SetLevel / Write events) and k_ (the attempt clock)
		{pkg: slogPkg, recv: "LWs", fn: "WriteLeveled", coq: "write_leveled", file: "Delivery", strict: true, fallback: "GenRef.write_leveled_ref",
			comment: "(fold over the members; returns (n, err, trace, clock))",
			tymap:   deliveryTypes("member"), fields: map[string]string{"Writer": "fld_Writer"}, effects: []string{"tr_", "k_"},
			calls: map[string]callSpec{
				"LevelSettable.SetLevel": {ev: "EvSet %r %0"},
				"LogWriter.Write":        {res: "io_write wres k_", ev: "EvWrite (member_id %r)", tick: true},
				"errors.Join":            {pure: "err_join %0 %1"},
			},
			params: []string{"(as_LevelSettable_of_LogWriter as_logwr_of_LogWriter : member -> option wid)", "(fld_Writer : wid -> wid)",
				"(as_LevelSettable_of_io_Writer : wid -> option wid)", "(wres : nat -> Z * bool)",
				"(s : list member)", "(lvl : Z)", "(p : bytes)", "(tr_ : list wevent)", "(k_ : nat)"},
			result: "Z * error * list wevent * nat", final: "(n, err, tr_, k_)"},
		{pkg: slogPkg, recv: "LWs", fn: "Write", coq: "write_plain", file: "Delivery", strict: true, fallback: "GenRef.write_plain_ref",
			comment: "(fold over the members; returns (n, err, trace, clock))",
			tymap:   deliveryTypes("member"), effects: []string{"tr_", "k_"},
			opaque:  map[string]string{"io.ErrShortWrite": "err_other", "io.EOF": "err_other", "os.ErrClosed": "err_other"},
			calls: map[string]callSpec{
				"LogWriter.Write": {res: "io_write wres k_", ev: "EvWrite (member_id %r)", tick: true},
				"errors.Join":     {pure: "err_join %0 %1"},
			},
			params: []string{"(wres : nat -> Z * bool)", "(s : list member)", "(p : bytes)", "(tr_ : list wevent)", "(k_ : nat)"},
			result: "Z * error * list wevent * nat", final: "(n, err, tr_, k_)"},
		// Entry.printOut: findWriter is an oracle (C03 ties it), WriteLeveled is the translation above,
		// the nested s.Warn(..) is the LAST thing the function does: it ends in PoWarn (the caller of the
		// theorem continues with the model of Warn) or in PoReturn
		{pkg: slogPkg, recv: "Entry", fn: "printOut", coq: "print_out", file: "Delivery", strict: true, fallback: "GenRef.print_out_ref",
			comment: "(ends in PoReturn or, with the nested diagnostic pending, in PoWarn)",
			tymap:   deliveryTypes("logwriter"), effects: []string{"tr_", "k_"}, nilTest: map[string]string{"logwriter": "lw_is_nil"},
			calls: map[string]callSpec{
				"*Entry.findWriter":      {pure: "f_findWriter %0"},
				"LWs.WriteLeveled":       {state: "write_leveled asm_LevelSettable asm_logwr fld_Writer as_LevelSettable_of_io_Writer wres %r %0 %1 tr_ k_"},
				"LevelSettable.SetLevel": {ev: "EvSet %r %0"},
				"LogWriter.Write":        {res: "io_write wres k_", ev: "EvWrite (lw_id %r)", tick: true},
				"collectWrittenBytes":    {ignore: true},
				"*Entry.Warn":            {tail: "PoWarn"},
				// anything else the function could end with is translated too, so that such an edit breaks
				// the proof instead of falling back
				"LWs.Write":    {state: "write_plain wres %r %0 tr_ k_"},
				"*Entry.Error": {tail: "PoOther"}, "*Entry.Info": {tail: "PoOther"}, "*Entry.Debug": {tail: "PoOther"},
				"*Entry.Trace": {tail: "PoOther"}, "*Entry.Fatal": {tail: "PoOther"}, "*Entry.Panic": {tail: "PoOther"},
				"*Entry.Print": {tail: "PoOther"}, "*Entry.Println": {tail: "PoOther"},
				// the logger's own writer set asked for another level (an oracle nothing is known about)
				"*dualWriter.Get": {pure: "f_writerGet %0"},
			},
			params: []string{"(asm_LevelSettable asm_logwr : member -> option wid)", "(fld_Writer : wid -> wid)", "(as_LevelSettable_of_io_Writer : wid -> option wid)",
				"(as_LWs_of_LogWriter : logwriter -> option (list member))", "(as_LevelSettable_of_LogWriter : logwriter -> option wid)",
				"(f_writerGet : Z -> list member)", "(f_findWriter : Z -> logwriter)", "(wres : nat -> Z * bool)", "(lvl : Z)", "(msg : bytes)", "(tr_ : list wevent)", "(k_ : nat)"},
			result: "po_result", final: "(PoReturn tr_ k_)"},

		// ---- level names (C17; C06 and C09 print them) ----
		{pkg: slogPkg, recv: "Level", fn: "String", coq: "level_string", file: "LevelNames", strict: true, fallback: "LevelRef.level_string_ref",
			params: []string{"(m_levelToString : list (Z * bytes))", "(level : Z)"}, result: "bytes", final: "(@nil byte)"},
		// None = the call panics (length outside 1..5, or a slice / Repeat out of range)
		{pkg: slogPkg, recv: "Level", fn: "ShortTag", coq: "short_tag", file: "LevelNames", strict: true, fallback: "LevelRef.short_tag_ref",
			comment: "(None = the call panics)", panicT: "None", retfmt: "Some (%s)",
			calls:  map[string]callSpec{"Level.String": {pure: "level_string m_levelToString %r"}},
			params: []string{"(m_shortTagMap : list (Z * list (Z * bytes)))", "(m_levelToString : list (Z * bytes))", "(level : Z)", "(length_ : Z)"},
			result: "option bytes", final: "None"},
		// the warning about an unknown name is an event of the trace tr_; the error value is abstracted to
		// nil / non-nil (option unit)
		{pkg: slogPkg, recv: "", fn: "ParseLevel", coq: "parse_level", file: "LevelNames", strict: true, fallback: "LevelRef.parse_level_ref",
			comment: "(returns (level, err, trace))", tymap: map[string]string{"error": "option unit"}, effects: []string{"tr_"},
			calls: map[string]callSpec{
				"fmt.Errorf":      {pure: "Some tt"},
				"defaultLog.Warn": {ev: "EvWarnUnknown %2"},
			},
			params: []string{"(m_stringToLevel : list (bytes * Z))", "(lvl : bytes)", "(tr_ : list lvl_event)"},
			result: "Z * option unit * list lvl_event", final: "(0, None, tr_)"},

		// Level.UnmarshalText / MarshalText (C17): the text form of a level is its name in levelToString, and reading a text
		// is ParseLevel of it (lower-casing included) - nothing else; the receiver *level is the threaded binder level
		{pkg: slogPkg, recv: "Level", fn: "UnmarshalText", coq: "unmarshal_text", file: "LevelNames", strict: true, fallback: "LevelRef.unmarshal_text_ref",
			comment: "(returns (err, *level, trace))", tymap: map[string]string{"error": "option unit", "[]byte": "bytes"}, effects: []string{"level", "tr_"},
			calls: map[string]callSpec{
				"ParseLevel": {state: "(let '(l_, e_, t_) := parse_level m_stringToLevel %0 tr_ in (l_, e_, level, t_))"},
			},
			params: []string{"(m_stringToLevel : list (bytes * Z))", "(level : Z)", "(text : bytes)", "(tr_ : list lvl_event)"},
			result: "option unit * Z * list lvl_event", final: "(None, level, tr_)"},

		{pkg: slogPkg, recv: "Level", fn: "MarshalText", coq: "marshal_text", file: "LevelNames", strict: true, fallback: "LevelRef.marshal_text_ref",
			comment: "(returns (text, err): the name in levelToString, an error for a level without one)", tymap: map[string]string{"error": "option unit", "[]byte": "bytes"},
			calls:  map[string]callSpec{"fmt.Errorf": {pure: "Some tt", lazy: true}}, nils: map[string]string{"bytes": "(@nil byte)"},
			params: []string{"(m_levelToString : list (Z * bytes))", "(level : Z)"}, result: "bytes * option unit", final: "((@nil byte), None)"},

		// ---- attribute assembly (C07) ----
		// a *Entry is seen as the chain of own attribute lists from it up to the root (nil = the empty
		// chain): e.attrs / e.owner are the head / the tail.  *kvps is threaded through as the binder
		// kvps.  The recursive call is the parameter rec_ (open recursion: the theorem is the induction step).
		{pkg: slogPkg, recv: "Entry", fn: "walkParentAttrs", coq: "walk_parent_attrs", file: "Assembly", strict: true, fallback: "CollectRef.walk_parent_attrs_ref",
			comment: "(returns *kvps)", effects: []string{"kvps"},
			tymap:   map[string]string{"*Entry": "list (list attr)", "Attrs": "list attr", "*Attrs": "list attr"},
			nilTest: map[string]string{"list (list attr)": "chain_is_nil"},
			fields:  map[string]string{"attrs": "chain_attrs", "owner": "chain_owner"}, globals: []string{"chain_attrs", "chain_owner"},
			calls: map[string]callSpec{
				"IsAnyBitsSet":           {pure: "negb (Z.land g_flags %0 =? 0)"},
				"*Entry.walkParentAttrs": {state: "rec_ %2 %3"},
			},
			params: []string{"(rec_ : list (list attr) -> list attr -> list attr)", "(g_flags : Z)", "(ctx : unit)", "(lvl : Z)", "(e : list (list attr))", "(kvps : list attr)"},
			result: "list attr", final: "kvps"},
		{pkg: slogPkg, recv: "Entry", fn: "collectArgs", coq: "collect_args", file: "Assembly", strict: true, fallback: "CollectRef.collect_args_ref",
			comment: "(returns *kvps; s is the logger's chain, s_attrs its own attributes)", effects: []string{"kvps"},
			tymap: map[string]string{"*Entry": "list (list attr)", "Attrs": "list attr", "*Attrs": "list attr", "[]any": "list attr"},
			calls: map[string]callSpec{
				"IsAnyBitsSet":           {pure: "negb (Z.land g_flags %0 =? 0)"},
				"*Entry.ctxKeysWanted":   {pure: "s_ctxKeysWanted"},
				"*Entry.fromCtx":         {state: "f_fromCtx %0 %1"},
				"*Entry.walkParentAttrs": {state: "f_walk %2 %3"},
				"argsToAttrs":            {state: "f_argsToAttrs %0 %1", spread: true},
			},
			params: []string{"(f_fromCtx : unit -> list attr -> list attr)", "(f_walk : list (list attr) -> list attr -> list attr)",
				"(f_argsToAttrs : list attr -> list attr -> list attr)", "(g_flags : Z)", "(s_ctxKeysWanted : bool)", "(s : list (list attr))", "(s_attrs : list attr)",
				"(ctx : unit)", "(kvps : list attr)", "(roughSize : Z)", "(lvl : Z)", "(args : list attr)"},
			result: "list attr", final: "kvps"},

		// ---- path hardening (C18) ----
		// None = the call panics (an index or slice out of range)
		{pkg: slogPkg, recv: "", fn: "underDir", coq: "under_dir", file: "Paths", strict: true, fallback: "PathRef.under_dir_ref",
			comment: "(None = the call panics)", panicT: "None", retfmt: "Some (%s)",
			calls: map[string]callSpec{
				"strings.HasPrefix":  {pure: "has_prefix %0 %1"},
				"os.IsPathSeparator": {pure: "%0 =? 47"}, // unix: '/' only
			},
			params: []string{"(file dir : bytes)"}, result: "option bool", final: "None"},
		// knownPathMap is ranged in the order of the table m_knownPathMap (the theorems quantify over its
		// permutations); the regexps are abstract (rx_matches / rx_replace of Model/Path.v); os.Getwd and
		// filepath.Rel are the parameters g_cwd and f_rel ("" = the error case, as in the code)
		{pkg: slogPkg, recv: "", fn: "checkpath", coq: "checkpath", file: "Paths", strict: true, fallback: "PathRef.checkpath_ref",
			comment: "(None = the call panics)", panicT: "None", retfmt: "Some (%s)",
			tymap:  map[string]string{"regRepl": "rx", "*regexp.Regexp": "rx", "error": "unit"},
			fields: map[string]string{"expr": "rx_expr", "repl": "rx_repl"}, globals: []string{"rx_expr", "rx_repl"},
			calls: map[string]callSpec{
				"IsAnyBitsSet":                    {pure: "negb (Z.land g_flags %0 =? 0)"},
				"underDir":                        {pure: "under_dir %0 %1", partial: true},
				"strings.HasPrefix":               {pure: "has_prefix %0 %1"},
				"strings.IndexRune":               {pure: "str_index_byte %0 %1", check: asciiRuneArg},
				"filepath.IsAbs":                  {pure: "is_abs %0"},
				"*regexp.Regexp.MatchString":      {pure: "rx_matches %r %0"},
				"*regexp.Regexp.ReplaceAllString": {pure: "rx_replace %r %0"},
				"os.Getwd":                        {res: "(g_cwd, tt)"},
				"filepath.Rel":                    {res: "(f_rel %0 %1, tt)"},
			},
			params: []string{"(f_rel : bytes -> bytes -> bytes)", "(g_flags : Z)", "(m_knownPathMap : list (bytes * bytes))",
				"(g_knownPathRegexpMap : list rx)", "(g_cwd : bytes)", "(file : bytes)"},
			result: "option bytes", final: "None"},

		// ---- the two string escapers (C04 / C05 / C06) ----
		// None = the call panics or a loop runs out of its declared fuel (the theorems show that neither
		// happens).  strconv.IsPrint and isInGraphicList are the parameters isprint / f_isInGraphicList;
		// utf8.DecodeRuneInString, AppendRune, ValidRune are Model/Utf8.v.
		{pkg: slogPkg, recv: "", fn: "appendEscapedRune", coq: "escape_rune", file: "Escapes", strict: true, auto: true, retTy: "bytes", fallback: "EscRef.escape_rune_ref",
			comment: "(returns buf; None = panic / out of fuel)", panicT: "None", retfmt: "Some (%s)",
			tymap: map[string]string{"[]byte": "bytes"}, fuels: []string{"5", "9"},
			calls: map[string]callSpec{
				"strconv.IsPrint": {pure: "isprint %0"}, "isInGraphicList": {pure: "f_isInGraphicList %0"},
				"utf8.AppendRune": {pure: "%0 ++ encode_rune %1"}, "utf8.ValidRune": {pure: "valid_rune %0"},
			},
			params: []string{"(isprint f_isInGraphicList : Z -> bool)", "(g_hex : bytes)", "(buf : bytes)", "(r : Z)", "(quote : Z)", "(ASCIIonly graphicOnly : bool)"},
			result: "option bytes", final: "None"},
		// the loop consumes width >= 1 bytes of s per round: fuel = len(s) + 1 (the last round sees len(s) = 0)
		{pkg: slogPkg, recv: "", fn: "appendQuotedWith", coq: "quote_with", file: "Escapes", strict: true, auto: true, retTy: "bytes", fallback: "EscRef.quote_with_ref",
			comment: "(returns buf; None = panic / out of fuel)", panicT: "None", retfmt: "Some (%s)",
			tymap: map[string]string{"[]byte": "bytes"}, fuels: []string{"S (List.length s)"},
			calls: map[string]callSpec{
				"utf8.DecodeRuneInString": {res: "decode_rune_z %0"},
				"appendEscapedRune":       {pure: "escape_rune isprint f_isInGraphicList g_hex %0 %1 %2 %3 %4", partial: true},
			},
			params: []string{"(isprint f_isInGraphicList : Z -> bool)", "(g_hex : bytes)", "(buf : bytes)", "(s : bytes)", "(quote : Z)", "(ASCIIonly graphicOnly : bool)"},
			result: "option bytes", final: "None"},
		// the index i advances by >= 1 per round: fuel = len(val) + 1.  The two local closures are exactly
		// s.pcAppendByte / s.pcAppendString (checked textually), which append to the buffer: the binder buf
		{pkg: slogPkg, recv: "PrintCtx", fn: "appendEscapedJSONString", coq: "json_escape", file: "Escapes", strict: true, auto: true, retTy: "bytes", fallback: "EscRef.json_escape_ref",
			comment: "(returns the buffer; None = panic / out of fuel)", panicT: "None", retfmt: "Some (%s)", effects: []string{"buf"},
			fuels:    []string{"S (List.length val)"},
			closures: map[string]string{"char": "func(b byte) { s.pcAppendByte(b) }", "strz": "func(str string) { s.pcAppendString(str) }"},
			calls: map[string]callSpec{
				"char": {state: "buf ++ [zb %0]"}, "strz": {state: "buf ++ %0"},
				"utf8.DecodeRuneInString": {res: "decode_rune_z %0"},
			},
			params: []string{"(g_hex : bytes)", "(m_safeSet : list (Z * bool))", "(val : bytes)", "(buf : bytes)"},
			result: "option bytes", final: "Some (buf)"},
		// the two callers: which escaper a value / a member name goes through.  pcAppendByte, WriteByte and
		// WriteString append to s.buf (C19); PreAlloc only reserves capacity; preCheck is empty; checkerr only
		// reports the error its argument returned
		{pkg: slogPkg, recv: "PrintCtx", fn: "appendQuotedString", coq: "quoted_string", file: "Escapes", strict: true, auto: true, retTy: "bytes",
			fallback: "EscRef.quoted_string_ref", comment: "(returns s.buf; None = panic / out of fuel)", panicT: "None", retfmt: "Some (%s)",
			tymap: map[string]string{"[]byte": "bytes"}, effects: []string{"s_buf"},
			calls: map[string]callSpec{
				"*PrintCtx.pcAppendByte":            {state: "s_buf ++ [zb %0]"},
				"*PrintCtx.appendEscapedJSONString": {state: "json_escape g_hex m_safeSet %0 s_buf", partial: true},
				"*PrintCtx.PreAlloc":                {ignore: true},
				"appendQuotedWith":                  {pure: "quote_with isprint f_isInGraphicList g_hex %0 %1 %2 %3 %4", partial: true},
			},
			params: []string{"(isprint f_isInGraphicList : Z -> bool)", "(g_hex : bytes)", "(m_safeSet : list (Z * bool))", "(s_jsonMode : bool)", "(s_buf : bytes)", "(str : bytes)"},
			result: "option bytes", final: "Some (s_buf)"},
		{pkg: slogPkg, recv: "PrintCtx", fn: "pcAppendStringKey", coq: "string_key", file: "Escapes", strict: true, auto: true, retTy: "bytes",
			fallback: "EscRef.string_key_ref", comment: "(returns s.buf; None = panic / out of fuel)", panicT: "None", retfmt: "Some (%s)",
			tymap: map[string]string{"[]byte": "bytes"}, effects: []string{"s_buf"},
			calls: map[string]callSpec{
				"*PrintCtx.preCheck": {ignore: true}, "*PrintCtx.checkerr": {unwrap: true},
				"*PrintCtx.WriteByte": {state: "s_buf ++ [zb %0]"}, "*PrintCtx.WriteString": {state: "s_buf ++ %0"},
				"*PrintCtx.appendEscapedJSONString": {state: "json_escape g_hex m_safeSet %0 s_buf", partial: true},
			},
			params: []string{"(g_hex : bytes)", "(m_safeSet : list (Z * bool))", "(s_jsonMode : bool)", "(s_buf : bytes)", "(str : bytes)"},
			result: "option bytes", final: "Some (s_buf)"},

		// ---- the colour helpers of colorize_tool.go (C06) ----
		// out is the io.Writer the helper writes to, as the bytes it holds (every Write appends; the count and
		// the error are dropped by the source: `_, _ =`); strconv.Itoa is Dec.dec_of_Z; clrNone is read as its
		// initialiser
		{pkg: slogPkg, recv: "colorizeToolS", fn: "echoColor", coq: "echo_color", file: "Colors", strict: true, fallback: "ColorRef.echo_color_ref",
			comment: "(returns what out holds; None = panic)", panicT: "None", retfmt: "Some (%s)", effects: []string{"out"}, inlineVars: true,
			tymap: map[string]string{"[]byte": "bytes", "io.Writer": "bytes", "color.Color": "Z"},
			calls:  map[string]callSpec{"io.Writer.Write": {state: "out ++ %0"}, "strconv.Itoa": {pure: "dec_of_Z %0"}},
			params: []string{"(out : bytes)", "(clr : Z)"}, result: "option bytes", final: "Some (out)"},
		{pkg: slogPkg, recv: "colorizeToolS", fn: "echoBgColor", coq: "echo_bg_color", file: "Colors", strict: true, fallback: "ColorRef.echo_color_ref",
			comment: "(returns what out holds; None = panic)", panicT: "None", retfmt: "Some (%s)", effects: []string{"out"}, inlineVars: true,
			tymap: map[string]string{"[]byte": "bytes", "io.Writer": "bytes", "color.Color": "Z"},
			calls:  map[string]callSpec{"io.Writer.Write": {state: "out ++ %0"}, "strconv.Itoa": {pure: "dec_of_Z %0"}},
			params: []string{"(out : bytes)", "(clr : Z)"}, result: "option bytes", final: "Some (out)"},
		{pkg: slogPkg, recv: "colorizeToolS", fn: "echoColorAndBg", coq: "echo_color_bg", file: "Colors", strict: true, fallback: "ColorRef.echo_color_bg_ref",
			comment: "(returns what out holds; None = panic)", panicT: "None", retfmt: "Some (%s)", effects: []string{"out"}, inlineVars: true,
			tymap: map[string]string{"[]byte": "bytes", "io.Writer": "bytes", "color.Color": "Z"},
			calls:  map[string]callSpec{"io.Writer.Write": {state: "out ++ %0"}, "strconv.Itoa": {pure: "dec_of_Z %0"}},
			params: []string{"(out : bytes)", "(clr bg : Z)"}, result: "option bytes", final: "Some (out)"},
		{pkg: slogPkg, recv: "colorizeToolS", fn: "echoResetColor", coq: "echo_reset", file: "Colors", strict: true, fallback: "ColorRef.echo_reset_ref",
			comment: "(returns what out holds; None = panic)", panicT: "None", retfmt: "Some (%s)", effects: []string{"out"},
			tymap: map[string]string{"[]byte": "bytes", "io.Writer": "bytes"},
			calls:  map[string]callSpec{"io.Writer.Write": {state: "out ++ %0"}},
			params: []string{"(out : bytes)"}, result: "option bytes", final: "Some (out)"},
		{pkg: slogPkg, recv: "colorizeToolS", fn: "rightPad", coq: "right_pad", file: "Colors", strict: true, fallback: "ColorRef.right_pad_ref",
			comment: "(None = panic)", panicT: "None", retfmt: "Some (%s)",
			calls:  map[string]callSpec{"strings.Repeat": {pure: "str_repeat %0 %1", partial: true}},
			params: []string{"(str padChar : bytes)", "(minw : Z)"}, result: "option bytes", final: "None"},
		// strings.TrimRight with its cutset is ColorRef.str_trim_right (ASCII cutset: checked); named results
		{pkg: slogPkg, recv: "colorizeToolS", fn: "splitFirstAndRestLines", coq: "split_first_rest", file: "Colors", strict: true, fallback: "ColorRef.split_first_rest_ref",
			comment: "(returns (firstLine, restLines, eol); None = panic)", panicT: "None", retfmt: "Some (%s)",
			calls: map[string]callSpec{
				"strings.TrimRight": {pure: "str_trim_right %0 %1"},
				"strings.IndexRune": {pure: "str_index_byte %0 %1", check: asciiRuneArg},
			},
			params: []string{"(str : bytes)"}, result: "option (bytes * bytes * bool)", final: "Some (firstLine, restLines, eol)"},

		// ---- PrintCtx.Begin / End: the framing of a record (C02: the final line feed; C04: the braces) ----
		{pkg: slogPkg, recv: "PrintCtx", fn: "Begin", coq: "pc_begin", file: "Layout", strict: true, fallback: "LayoutRef.pc_begin_ref",
			comment: "(returns s.buf; None = panic)", panicT: "None", retfmt: "Some (%s)", effects: []string{"s_buf"},
			calls:  map[string]callSpec{"*PrintCtx.pcAppendByte": {state: "s_buf ++ [zb %0]"}},
			params: []string{"(s_jsonMode : bool)", "(s_buf : bytes)"}, result: "option bytes", final: "Some (s_buf)"},
		{pkg: slogPkg, recv: "PrintCtx", fn: "End", coq: "pc_end", file: "Layout", strict: true, fallback: "LayoutRef.pc_end_ref",
			comment: "(returns s.buf; None = panic)", panicT: "None", retfmt: "Some (%s)", effects: []string{"s_buf"},
			calls:  map[string]callSpec{"*PrintCtx.pcAppendByte": {state: "s_buf ++ [zb %0]"}},
			params: []string{"(s_jsonMode : bool)", "(s_buf : bytes)", "(newline : bool)"}, result: "option bytes", final: "Some (s_buf)"},
		// checkedfuncname: the function name printed in the caller part (C14, C06); with Lcallerpackagename the
		// provider table is applied in the order of the binder (strings.ReplaceAll is the parameter f_replace_all)
		{pkg: slogPkg, recv: "", fn: "checkedfuncname", coq: "checked_funcname", file: "Layout", strict: true, fallback: "LayoutRef.checked_funcname_ref",
			comment: "(None = panic)", panicT: "None", retfmt: "Some (%s)",
			calls: map[string]callSpec{
				"IsAnyBitsSet":       {pure: "negb (Z.land g_flags %0 =? 0)"},
				"strings.ReplaceAll": {pure: "f_replace_all %0 %1 %2"},
				"strings.LastIndex":  {pure: "str_last_index %0 %1"},
			},
			params: []string{"(f_replace_all : bytes -> bytes -> bytes -> bytes)", "(g_flags : Z)", "(m_codeHostingProvidersMap : list (bytes * bytes))", "(name : bytes)"},
			result: "option bytes", final: "None"},

		// ---- the two width setters (C06: tag widths and minimal widths; C02: a stored width of 6 and more makes ShortTag panic) ----
		{pkg: slogPkg, recv: "", fn: "SetLevelOutputWidth", coq: "set_level_output_width", file: "Layout", strict: true, fallback: "LayoutRef.set_level_output_width_ref",
			comment: "(returns levelOutputWidth)", params: []string{"(g_levelOutputWidth : Z)", "(width : Z)"}, result: "Z", final: "g_levelOutputWidth"},
		{pkg: slogPkg, recv: "", fn: "SetMessageMinimalWidth", coq: "set_message_minimal_width", file: "Layout", strict: true, fallback: "LayoutRef.set_message_minimal_width_ref",
			comment: "(returns minimalMessageWidth)", params: []string{"(g_minimalMessageWidth : Z)", "(w : Z)"}, result: "Z", final: "g_minimalMessageWidth"},

		// ---- the flag word (every target above renders IsAnyBitsSet(F) as negb (Z.land g_flags F =? 0): here is the function itself) ----
		{pkg: slogPkg, recv: "", fn: "IsAnyBitsSet", coq: "is_any_bits_set", file: "Layout", strict: true, fallback: "LayoutRef.is_any_bits_set_ref",
			params: []string{"(g_flags : Z)", "(f : Z)"}, result: "bool", final: "false"},
		{pkg: slogPkg, recv: "", fn: "IsAllBitsSet", coq: "is_all_bits_set", file: "Layout", strict: true, fallback: "LayoutRef.is_all_bits_set_ref",
			params: []string{"(g_flags : Z)", "(f : Z)"}, result: "bool", final: "false"},
		{pkg: slogPkg, recv: "", fn: "AddFlags", coq: "add_flags", file: "Layout", strict: true, fallback: "LayoutRef.add_flags_ref",
			comment: "(returns flags)", calls: map[string]callSpec{"Verbose": {ignore: true}},
			params: []string{"(g_flags : Z)", "(flagsToAdd : list Z)"}, result: "Z", final: "g_flags"},

		// ---- the small append helpers of PrintCtx: the renderings `s_buf ++ [zb b]` / `s_buf ++ str` the other targets declare
		// for pcAppendByte / pcAppendString are what these functions do, given that WriteByte / WriteString append (C19) ----
		{pkg: slogPkg, recv: "PrintCtx", fn: "pcAppendByte", coq: "pc_append_byte", file: "Layout", strict: true, fallback: "LayoutRef.pc_append_byte_ref",
			comment: "(returns s.buf; None = panic)", panicT: "None", retfmt: "Some (%s)", effects: []string{"s_buf"},
			tymap: map[string]string{"[]byte": "bytes", "error": "option unit"},
			calls: map[string]callSpec{
				"*PrintCtx.preCheck": {ignore: true}, "*PrintCtx.checkerr": {unwrap: true}, "hintInternal": {ignore: true},
				"*PrintCtx.WriteByte": {state: "s_buf ++ [zb %0]"}, "*PrintCtx.WriteString": {state: "s_buf ++ %0"},
			},
			params: []string{"(s_buf : bytes)", "(b : Z)"}, result: "option bytes", final: "Some (s_buf)"},
		{pkg: slogPkg, recv: "PrintCtx", fn: "pcAppendStringValue", coq: "pc_append_string_value", file: "Layout", strict: true, fallback: "LayoutRef.pc_append_string_value_ref",
			comment: "(returns s.buf; None = panic)", panicT: "None", retfmt: "Some (%s)", effects: []string{"s_buf"},
			tymap: map[string]string{"[]byte": "bytes", "error": "option unit"},
			calls: map[string]callSpec{
				"*PrintCtx.preCheck": {ignore: true}, "*PrintCtx.checkerr": {unwrap: true}, "hintInternal": {ignore: true},
				"*PrintCtx.WriteByte": {state: "s_buf ++ [zb %0]"}, "*PrintCtx.WriteString": {state: "s_buf ++ %0"},
			},
			params: []string{"(s_buf : bytes)", "(str : bytes)"}, result: "option bytes", final: "Some (s_buf)"},
		{pkg: slogPkg, recv: "PrintCtx", fn: "pcAppendColon", coq: "pc_append_colon", file: "Layout", strict: true, fallback: "LayoutRef.pc_append_colon_ref",
			comment: "(returns s.buf; None = panic)", panicT: "None", retfmt: "Some (%s)", effects: []string{"s_buf"},
			tymap: map[string]string{"[]byte": "bytes", "error": "option unit"},
			calls: map[string]callSpec{
				"*PrintCtx.preCheck": {ignore: true}, "*PrintCtx.checkerr": {unwrap: true}, "hintInternal": {ignore: true},
				"*PrintCtx.WriteByte": {state: "s_buf ++ [zb %0]"}, "*PrintCtx.WriteString": {state: "s_buf ++ %0"},
				"*PrintCtx.pcAppendByte": {state: "s_buf ++ [zb %0]"},
			},
			params: []string{"(s_jsonMode : bool)", "(s_buf : bytes)"}, result: "option bytes", final: "Some (s_buf)"},
		{pkg: slogPkg, recv: "PrintCtx", fn: "pcAppendComma", coq: "pc_append_comma", file: "Layout", strict: true, fallback: "LayoutRef.pc_append_comma_ref",
			comment: "(returns s.buf; None = panic)", panicT: "None", retfmt: "Some (%s)", effects: []string{"s_buf"},
			tymap: map[string]string{"[]byte": "bytes", "error": "option unit"},
			calls: map[string]callSpec{
				"*PrintCtx.preCheck": {ignore: true}, "*PrintCtx.checkerr": {unwrap: true}, "hintInternal": {ignore: true},
				"*PrintCtx.WriteByte": {state: "s_buf ++ [zb %0]"}, "*PrintCtx.WriteString": {state: "s_buf ++ %0"},
				"*PrintCtx.pcAppendByte": {state: "s_buf ++ [zb %0]"},
			},
			params: []string{"(s_jsonMode : bool)", "(s_buf : bytes)"}, result: "option bytes", final: "Some (s_buf)"},

		// ---- Entry.printTimestamp: the first part of every record, in terms of the translated helpers (string_key, echo_color,
		// the separators); appendTimestamp is the parameter f_ts (C16 decides its text) ----
		{pkg: slogPkg, recv: "Entry", fn: "printTimestamp", coq: "print_timestamp", file: "Layout", strict: true, fallback: "LayoutRef.print_timestamp_ref",
			comment: "(returns pc.buf; None = panic)", panicT: "None", retfmt: "Some (%s)", effects: []string{"pc_buf"}, inlineVars: true,
			opaque: map[string]string{"pc.noColor": "pc_noColor", "pc.now": "tt"},
			calls: map[string]callSpec{
				"*PrintCtx.pcAppendStringKey": {state: "Escapes.string_key g_hex m_safeSet pc_jsonMode pc_buf %0", partial: true},
				"*PrintCtx.pcAppendColon":     {state: "pc_append_colon pc_jsonMode pc_buf", partial: true},
				"*PrintCtx.pcAppendComma":     {state: "pc_append_comma pc_jsonMode pc_buf", partial: true},
				"*PrintCtx.pcAppendByte":      {state: "pc_append_byte pc_buf %0", partial: true},
				"*PrintCtx.appendTimestamp":   {state: "f_ts pc_buf", lazy: true},
				"colorizeToolS.echoColor":     {state: "Colors.echo_color pc_buf %1", partial: true, lazy: true},
			},
			params: []string{"(f_ts : bytes -> bytes)", "(g_hex : bytes)", "(m_safeSet : list (Z * bool))", "(pc : unit)", "(pc_noColor pc_jsonMode : bool)", "(pc_buf : bytes)"},
			result: "option bytes", final: "Some (pc_buf)"},

		// ---- Entry.printLoggerName: nothing for a logger without a name; AddString and the library's WrapColorAndBgTo are parameters ----
		{pkg: slogPkg, recv: "Entry", fn: "printLoggerName", coq: "print_logger_name", file: "Layout", strict: true, fallback: "LayoutRef.print_logger_name_ref",
			comment: "(returns pc.buf; None = panic)", panicT: "None", retfmt: "Some (%s)", effects: []string{"pc_buf"}, inlineVars: true,
			opaque: map[string]string{"pc.noColor": "pc_noColor"},
			calls: map[string]callSpec{
				"*PrintCtx.AddString":            {state: "f_add_string pc_buf %0 %1"},
				"*PrintCtx.pcAppendComma":        {state: "pc_append_comma pc_jsonMode pc_buf", partial: true},
				"*PrintCtx.pcAppendByte":         {state: "pc_append_byte pc_buf %0", partial: true},
				"colorizeToolS.wrapColorAndBgTo": {state: "f_wrap_to pc_buf %1 %2 %3", lazy: true},
			},
			params: []string{"(f_add_string : bytes -> bytes -> bytes -> bytes)", "(f_wrap_to : bytes -> Z -> Z -> bytes -> bytes)", "(s_name : bytes)", "(pc : unit)", "(pc_noColor pc_jsonMode : bool)", "(pc_buf : bytes)"},
			result: "option bytes", final: "Some (pc_buf)"},

		// ---- Entry.printSeverity: the level member / the bracketed tag of the configured width in the record's colours ----
		{pkg: slogPkg, recv: "Entry", fn: "printSeverity", coq: "print_severity", file: "Layout", strict: true, fallback: "LayoutRef.print_severity_ref",
			comment: "(returns pc.buf; None = panic)", panicT: "None", retfmt: "Some (%s)", effects: []string{"pc_buf"}, inlineVars: true,
			opaque: map[string]string{"pc.noColor": "pc_noColor", "pc.lvl": "pc_lvl", "pc.clr": "pc_clr", "pc.bg": "pc_bg"},
			calls: map[string]callSpec{
				"*PrintCtx.AddString":            {state: "f_add_string pc_buf %0 %1"},
				"*PrintCtx.pcAppendComma":        {state: "pc_append_comma pc_jsonMode pc_buf", partial: true},
				"*PrintCtx.pcAppendByte":         {state: "pc_append_byte pc_buf %0", partial: true},
				"colorizeToolS.wrapColorAndBgTo": {state: "f_wrap_to pc_buf %1 %2 %3", lazy: true},
				"colorizeToolS.wrapRune":         {pure: "f_wrap_rune %0 %1 %2"},
				"Level.String":                   {pure: "LevelNames.level_string m_levelToString %r"},
				"Level.ShortTag":                 {pure: "LevelNames.short_tag m_shortTagMap m_levelToString %r %0", partial: true},
			},
			params: []string{"(f_add_string : bytes -> bytes -> bytes -> bytes)", "(f_wrap_to : bytes -> Z -> Z -> bytes -> bytes)", "(f_wrap_rune : bytes -> Z -> Z -> bytes)",
				"(m_shortTagMap : list (Z * list (Z * bytes)))", "(m_levelToString : list (Z * bytes))", "(g_levelOutputWidth : Z)",
				"(pc : unit)", "(pc_noColor pc_jsonMode : bool)", "(pc_lvl pc_clr pc_bg : Z)", "(pc_buf : bytes)"},
			result: "option bytes", final: "Some (pc_buf)"},

		// ---- Entry.printPC: the caller part in the three formats; the Add* members, AppendInt, the colour library's WrapColorTo and
		// pc.source() are parameters, checkedfuncname / echoResetColor / the separators are the translations ----
		{pkg: slogPkg, recv: "Entry", fn: "printPC", coq: "print_pc", file: "Layout", strict: true, fallback: "LayoutRef.print_pc_ref",
			comment: "(returns pc.buf; None = panic)", panicT: "None", retfmt: "Some (%s)", effects: []string{"pc_buf"}, inlineVars: true,
			opaque: map[string]string{"pc.noColor": "pc_noColor", "pc.jsonMode": "pc_jsonMode"},
			tymap:  map[string]string{"*Source": "srcv"}, fields: map[string]string{"File": "src_file", "Line": "src_line", "Function": "src_function"},
			globals: []string{"src_file", "src_line", "src_function"},
			calls: map[string]callSpec{
				"*PrintCtx.source":               {pure: "g_source"},
				"*PrintCtx.pcAppendComma":        {state: "pc_append_comma pc_jsonMode pc_buf", partial: true},
				"*PrintCtx.pcAppendColon":        {state: "pc_append_colon pc_jsonMode pc_buf", partial: true},
				"*PrintCtx.pcAppendByte":         {state: "pc_append_byte pc_buf %0", partial: true},
				"*PrintCtx.pcAppendStringKey":    {state: "Escapes.string_key g_hex m_safeSet pc_jsonMode pc_buf %0", partial: true},
				"*PrintCtx.pcAppendString":       {state: "pc_buf ++ %0"},
				"*PrintCtx.AddString":            {state: "f_add_string pc_buf %0 %1"},
				"*PrintCtx.AddInt":               {state: "f_add_int pc_buf %0 %1"},
				"*PrintCtx.AddPrefixedString":    {state: "f_add_pstring pc_buf %0 %1 %2"},
				"*PrintCtx.AddPrefixedInt":       {state: "f_add_pint pc_buf %0 %1 %2"},
				"*PrintCtx.AppendInt":            {state: "f_append_int pc_buf %0"},
				"colorizeToolS.wrapColorTo":      {state: "f_wrap_color_to pc_buf %1 %2", lazy: true},
				"colorizeToolS.echoResetColor":   {state: "Colors.echo_reset pc_buf", partial: true, lazy: true},
				"checkedfuncname":                {pure: "checked_funcname f_replace_all g_flags m_codeHostingProvidersMap %0", partial: true},
			},
			params: []string{"(f_add_string : bytes -> bytes -> bytes -> bytes)", "(f_add_int : bytes -> bytes -> Z -> bytes)",
				"(f_add_pstring : bytes -> bytes -> bytes -> bytes -> bytes)", "(f_add_pint : bytes -> bytes -> bytes -> Z -> bytes)",
				"(f_append_int : bytes -> Z -> bytes)", "(f_wrap_color_to : bytes -> Z -> bytes -> bytes)", "(f_replace_all : bytes -> bytes -> bytes -> bytes)",
				"(g_hex : bytes)", "(m_safeSet : list (Z * bool))", "(g_flags : Z)", "(m_codeHostingProvidersMap : list (bytes * bytes))",
				"(g_source : srcv)", "(pc : unit)", "(pc_noColor pc_jsonMode : bool)", "(pc_buf : bytes)"},
			result: "option bytes", final: "Some (pc_buf)"},

		// ---- the skeleton of printImpl after the blank-line rule (C02, C04-C06, C14): which part printers run,
		// in what order, under which mode bit / flag; the level colours; ONE printOut of pc.Bytes() after End.
		// The part printers are parameters over the context pc (LayoutRef.pcs)
		{pkg: slogPkg, recv: "Entry", fn: "printImpl", coq: "print_impl", file: "Layout", strict: true, fallback: "@LayoutRef.print_impl_fallback",
			comment: "(the statements after the blank-line rule; returns (deliveries, context); None = panic)", panicT: "None", retfmt: "Some (%s)",
			effects: []string{"pc", "tr_"},
			tymap:   map[string]string{"[]byte": "bytes", "error": "E", "*PrintCtx": "pcs R", "color.Color": "Z", "[]color.Color": "list Z"},
			fields:  map[string]string{"noColor": "pc_noColor", "lvl": "pc_lvl", "clr": "pc_clr", "bg": "pc_bg"},
			setters: map[string]string{"clr": "set_clr", "bg": "set_bg"}, globals: []string{"pc_noColor", "pc_lvl", "pc_clr", "pc_bg", "set_clr", "set_bg"},
			calls: map[string]callSpec{
				"*PrintCtx.Begin":                   {state: "(f_begin %r, tr_)"},
				"*Entry.printTimestamp":             {state: "(f_timestamp %0, tr_)"},
				"*Entry.printLoggerName":            {state: "(f_name %0, tr_)"},
				"*Entry.printSeverity":              {state: "(f_severity %0, tr_)"},
				"*Entry.printMsg":                   {state: "(f_msg %0, tr_)"},
				"*Entry.printFirstLineOfMsg":        {state: "(f_first %0, tr_)"},
				"serializeAttrs":                    {state: "(let '(h_, p_) := f_attrs %0 in (h_, p_, tr_))", lazy: true},
				"IsAnyBitsSet":                      {pure: "negb (Z.land g_flags %0 =? 0)"},
				"*Entry.printPC":                    {state: "(f_pc %0, tr_)"},
				"*Entry.printRestLinesOfMsg":        {state: "(f_rest %0, tr_)"},
				"*PrintCtx.appendErrorAfterPrinted": {state: "(f_errdump %r %0, tr_)"},
				"*PrintCtx.End":                     {state: "(f_end %r %0, tr_)"},
				"*PrintCtx.Bytes":                   {pure: "f_bytes %r"},
				"*Entry.printOut":                   {ev: "d_printout %0 %1"},
			},
			from: func(stmts []ast.Stmt) []ast.Stmt {
				if len(stmts) > 1 && containsText(stmts[0], "AlwaysLevel") {
					return stmts[1:]
				}
				return nil
			},
			params: []string{"{R E D : Type}", "(f_begin f_timestamp f_name f_severity f_msg f_first f_pc f_rest : pcs R -> pcs R)",
				"(f_attrs : pcs R -> E * pcs R)", "(f_errdump : pcs R -> E -> pcs R)", "(f_end : pcs R -> bool -> pcs R)", "(f_bytes : pcs R -> bytes)",
				"(d_printout : Z -> bytes -> D)", "(m_mLevelColors : list (Z * list Z))", "(g_flags : Z)", "(pc : pcs R)", "(tr_ : list D)"},
			result: "option (list D * pcs R)", final: "Some (tr_, pc)"},

		// ---- the logger tree (C10): Entry.newChildLogger and the inheritance at the head of newentry ----
		// a *Entry is a reference (eref); the arguments are gargs (string / option / handler / other: the type
		// assertions are oracles); the random name and newentry itself are parameters: the theorem shows WHICH
		// name is looked up among the receiver's direct children and WITH WHAT newentry is called
		{pkg: slogPkg, recv: "Entry", fn: "newChildLogger", coq: "new_child", file: "Loggers", strict: true, fallback: "TreeRef.new_child_ref",
			comment: "(returns (child, s.items); None = panic)", panicT: "None", retfmt: "Some (%s)", effects: []string{"s_items"},
			tymap: map[string]string{"*Entry": "eref", "[]any": "list garg", "any": "garg"}, nils: map[string]string{"eref": "eref_nil"},
			calls: map[string]callSpec{
				"*Entry.randomChildName": {pure: "rnd_name"},
				"newentry":               {pure: "f_newentry %0 %1", spread: true},
			},
			params: []string{"(as_string_of_any : garg -> option bytes)", "(rnd_name : bytes)", "(f_newentry : eref -> list garg -> eref)",
				"(s : eref)", "(s_items : gomapB eref)", "(args : list garg)"},
			result: "option (eref * gomapB eref)", final: "None"},
		{pkg: slogPkg, recv: "", fn: "newentry", coq: "child_defaults", file: "Loggers", strict: true, fallback: "TreeRef.child_defaults_ref",
			comment: "(the first two statements: what a new logger starts with)",
			opaque: map[string]string{"parent != nil": "p_present", "parent.useJSON": "p_useJSON", "parent.useColor": "p_useColor",
				"parent.Level()": "p_level", "GetLevel()": "g_deflevel"},
			from: func(stmts []ast.Stmt) []ast.Stmt {
				if len(stmts) < 3 || !containsText(stmts[0], "GetLevel()") || !containsText(stmts[1], "parent.useJSON") {
					return nil
				}
				// .. and the struct literal must take exactly these three
				if !containsNorm(stmts[2], "useColor: color") || !containsNorm(stmts[2], "useJSON: js") || !containsNorm(stmts[2], "level: level") {
					return nil
				}
				return stmts[0:2]
			},
			params: []string{"(p_present p_useJSON p_useColor : bool)", "(p_level g_deflevel : Z)"},
			result: "bool * bool * Z", final: "(js, color, level)"},

		// ---- the derived log/slog handlers (C15): handler4LogSlog.with.  s.ops is a slice of HEAP cells
		// (array, offset, length, capacity) and heap_ the arrays, so that sharing of a backing array between the
		// handlers derived from one parent is expressible ----
		{pkg: slogPkg, recv: "handler4LogSlog", fn: "with", coq: "handler_with", file: "Handlers", strict: true, fallback: "AdaptRef.handler_with_ref",
			comment: "(returns (the new handler, the heap); None = panic)", panicT: "None", retfmt: "Some (%s)", effects: []string{"heap_"},
			tymap:  map[string]string{"[]handlerOp": "hslice", "handlerOp": "hop", "handler4LogSlog": "hnd", "*handler4LogSlog": "hnd", "Logger": "lgr"},
			params: []string{"(h_zero : hop)", "(f_growcap : nat -> nat)", "(s_Logger : lgr)", "(s_ops : hslice)", "(op : hop)", "(heap_ : heap hop)"},
			result: "option (hnd * heap hop)", final: "None"},

		// ---- PrintCtx.setentry and PrintCtx.set in full (C09): every field of the context is a binder and is handed
		// back, so the VALUE each field gets is tied (the first-generation pc_setentry keeps the two mode bits) ----
		pcT("setentry", "pc_setentry_full", []string{"(e_useJSON e_useColor : bool)", "(e_timeLayout : bytes)", "(e_modeUTC : Z)", "(e_valueStringer : Z)", "(e_level : Z)", "(e_attrs : list attr)", "(g_flags : Z)"}, nil),
		pcT("set", "pc_set_full", []string{"(e_useJSON e_useColor : bool)", "(e_timeLayout : bytes)", "(e_modeUTC : Z)", "(e_valueStringer : Z)", "(e_level : Z)", "(e_attrs : list attr)", "(g_flags : Z)",
			"(e : Z)", "(lvl : Z)", "(timestamp : Z)", "(stackFrame : Z)", "(msg : bytes)", "(kvps : list attr)"},
			map[string]callSpec{"*PrintCtx.setentry": {state: "pc_setentry_full " + strings.Join(pcFieldNames(), " ") + " e_useJSON e_useColor e_timeLayout e_modeUTC e_valueStringer e_level e_attrs g_flags", partial: true}}),

		// ---- the skip count (C14 / C10): SetSkip, withSkip, WithSkip.  newChildLogger and withSkip are parameters in
		// WithSkip: the theorem shows WHICH child name is asked for and that the count is set on THAT child ----
		{pkg: slogPkg, recv: "Entry", fn: "withSkip", coq: "with_skip", file: "Loggers", strict: true, fallback: "TreeRef.with_skip_ref",
			effects: []string{"s_extraFrames"}, params: []string{"(s : eref)", "(s_extraFrames : Z)", "(extraFrames : Z)"}, result: "eref * Z", final: "(s, s_extraFrames)",
			tymap: map[string]string{"*Entry": "eref"}},
		{pkg: slogPkg, recv: "Entry", fn: "SetSkip", coq: "set_skip", file: "Loggers", strict: true, fallback: "TreeRef.set_skip_ref",
			calls:   map[string]callSpec{"*Entry.withSkip": {state: "with_skip s s_extraFrames %0", ignoreRes: true}},
			effects: []string{"s_extraFrames"}, params: []string{"(s : eref)", "(s_extraFrames : Z)", "(extraFrames : Z)"}, result: "Z", final: "s_extraFrames",
			tymap: map[string]string{"*Entry": "eref"}},
		{pkg: slogPkg, recv: "Entry", fn: "WithSkip", coq: "with_skip_child", file: "Loggers", strict: true, fallback: "TreeRef.with_skip_child_ref",
			tymap:  map[string]string{"*Entry": "eref"}, nils: map[string]string{"eref": "eref_nil"}, panicT: "eref_nil",
			calls:  map[string]callSpec{"*Entry.newChildLogger": {pure: "f_newChild %0", spread: true}, "*Entry.withSkip": {pure: "f_withSkip %r %0"}},
			// the receiver's children, format flags and level are inputs, and a write to such a field of the CHILD is a setter
			// applied to it: touching them is a different result, not a fall-back
			setters: map[string]string{"useJSON": "set_useJSON", "useColor": "set_useColor", "level": "set_level", "extraFrames": "set_extraFrames"},
			params: []string{"(f_newChild : bytes -> eref)", "(f_withSkip : eref -> Z -> eref)", "(set_useJSON set_useColor : eref -> bool -> eref)", "(set_level set_extraFrames : eref -> Z -> eref)",
				"(s_name : bytes)", "(s_extraFrames s_level : Z)", "(s_useJSON s_useColor : bool)", "(s_items : gomapB eref)", "(extraFrames : Z)"},
			result: "eref", final: "eref_nil"},

		// nest: s.ops is only read (a list of (group, attrs)); the attributes are slices of heap cells; NewGroupedAttr
		// is a parameter; the loop runs len(s.ops) rounds (i goes from len-1 down to 0): fuel len+1
		{pkg: slogPkg, recv: "handler4LogSlog", fn: "nest", coq: "handler_nest", file: "Handlers", strict: true, fallback: "AdaptRef.handler_nest_ref",
			comment: "(returns (the attributes, the heap); None = panic / out of fuel)", panicT: "None", retfmt: "Some (%s)", effects: []string{"heap_"},
			tymap:  map[string]string{"[]handlerOp": "list (bytes * hslice)", "handlerOp": "bytes * hslice", "Attrs": "hslice", "Attr": "acell"},
			fields: map[string]string{"group": "fst", "attrs": "snd"}, globals: []string{"fst", "snd"},
			fuels:  []string{"S (List.length s_ops)"},
			calls:  map[string]callSpec{"NewGroupedAttr": {pure: "f_group %0 (h_read heap_ %1)", spread: true}},
			params: []string{"(h_zero : acell)", "(f_growcap : nat -> nat)", "(f_group : bytes -> list acell -> acell)", "(s_ops : list (bytes * hslice))", "(fields : hslice)", "(heap_ : heap acell)"},
			result: "option (hslice * heap acell)", final: "None"},

		// ---- RegisterLevel (C17): the options arrive resolved (the regPack fields after every opt ran: o_*);
		// the seven tables are the state the function hands back; a map write overwrites (mapZ_set / mapB_set) ----
		{pkg: slogPkg, recv: "", fn: "RegisterLevel", coq: "register", file: "Registry", strict: true, fallback: "RegRef.register_ref",
			comment: "(returns (error, tables); None = panic / out of fuel)", panicT: "None", retfmt: "Some (%s)", retTy: "option bytes",
			tymap:   map[string]string{"error": "option bytes"},
			effects: []string{"g_allLevels", "m_levelToString", "m_stringToLevel", "m_shortTagMap", "m_mLevelColors", "m_mLevelIsEnabledAs", "m_mLevelUseErrorDevice"},
			opaque: map[string]string{"pack.clr": "o_clr", "pack.bg": "o_bg", "pack.treatAs": "o_treat", "pack.printOutToErrorDevice": "o_err",
				"pack.shortTags[i]": "(tag_at o_tags i)"},
			calls: map[string]callSpec{"fmt.Errorf": {pure: "Some %0", lazy: true}},
			from: func(stmts []ast.Stmt) []ast.Stmt {
				// leave out `var pack = regPack{..}` and `for _, opt := range opts { opt(&pack) }`
				var out []ast.Stmt
				skipped := 0
				for _, st := range stmts {
					if ds, ok := st.(*ast.DeclStmt); ok && containsText(ds, "regPack{") {
						skipped++
						continue
					}
					if rs, ok := st.(*ast.RangeStmt); ok && src(rs.X) == "opts" && strings.Join(strings.Fields(src(rs.Body)), " ") == "{ opt(&pack) }" {
						skipped++
						continue
					}
					out = append(out, st)
				}
				if skipped != 2 {
					return nil
				}
				return out
			},
			params: []string{"(g_allLevels : list Z)", "(m_levelToString : list (Z * bytes))", "(m_stringToLevel : list (bytes * Z))",
				"(m_shortTagMap : list (Z * list (Z * bytes)))", "(m_mLevelColors : list (Z * list Z))", "(m_mLevelIsEnabledAs : list (Z * Z))",
				"(m_mLevelUseErrorDevice : list (Z * bool))", "(levelValue : Z)", "(title : bytes)", "(o_tags : list bytes)", "(o_clr o_bg o_treat : Z)", "(o_err : bool)"},
			result: "option (option bytes * list Z * list (Z * bytes) * list (bytes * Z) * list (Z * list (Z * bytes)) * list (Z * list Z) * list (Z * Z) * list (Z * bool))",
			final:  "None"},

		// ---- the end of Entry.logContext (C12): from the print of the record to the end of the function ----
		// every statement on the way is translated, so an early return between the print and the termination block
		// changes the generated function; the record's print is the event (its level), the panic value is msg, the
		// exit code that of the source; the pooled attribute slice is a []T of which only length and capacity matter
		{pkg: slogPkg, recv: "Entry", fn: "logContext", coq: "after_print", file: "Termination", strict: true, fallback: "TermRef.after_print_ref",
			comment: "(from s.print to the end: Some (how the call ends, trace) | None = a range panic)",
			tymap:   map[string]string{"Attrs": "gslice"}, effects: []string{"tr_"}, panicT: "None", panicFmt: "Some (DoPanic %s, tr_)",
			opaque:  map[string]string{"inTesting": "g_inTesting", "inBenching": "g_inBenching", "isDebugging": "g_isDebugging", "isDebug": "g_isDebug"},
			calls: map[string]callSpec{
				"*Entry.print":   {ev: "%1", lazy: true},
				"sync.Pool.Put":  {ignore: true},
				"IsAnyBitsSet":   {pure: "(negb (Z.land g_flags %0 =? 0))"},
				"IsAllBitsSet":   {pure: "(Z.land g_flags %0 =? %0)"},
				"os.Exit":        {tail: "exit_end %0"},
			},
			from: func(stmts []ast.Stmt) []ast.Stmt {
				for i, s := range stmts {
					if es, ok := s.(*ast.ExprStmt); ok && strings.HasPrefix(src(es.X), "s.print(") {
						return stmts[i:]
					}
				}
				return nil
			},
			params: []string{"(g_inTesting g_inBenching g_isDebugging g_isDebug : bool)", "(g_flags : Z)", "(lvl : Z)", "(msg : bytes)", "(kvps : gslice)", "(tr_ : list Z)"},
			result: "option (term * list Z)", final: "Some (Continue, tr_)"},
		// the initialiser of the package variable inTesting (the process-mode input of the decision): what it asks hedzr/is
		{pkg: slogPkg, recv: "Entry", fn: "logContext", coq: "in_testing_init", file: "Termination", strict: true, fallback: "TermRef.in_testing_init_ref",
			comment: "(the initialiser of var inTesting)", panicT: "false",
			calls: map[string]callSpec{"is.InTesting": {pure: "f_InTesting"}, "is.InBenchmark": {pure: "f_InBenchmark"}, "is.InDebugging": {pure: "f_InDebugging"},
				"is.DebugMode": {pure: "f_DebugMode"}, "is.DebugBuild": {pure: "f_DebugBuild"}},
			cond: func(fd *ast.FuncDecl) ast.Expr { return varInit(slogPkg(), "inTesting") },
			params: []string{"(f_InTesting f_InBenchmark f_InDebugging f_DebugMode f_DebugBuild : bool)"}, result: "bool", final: "false"},

		// ---- bare entry points (C01, C03): which internal routine a call ends in, and with what ----
		// Entry.Println: every path must end in s.log1 (the gate and the caller depth of every other entry point);
		// the routines a short cut could use instead (printOut, print, printImpl, logContext) are declared too, so that
		// such an edit is a different route and not a fall-back
		{pkg: slogPkg, recv: "Entry", fn: "Println", coq: "println_route", file: "Routes", strict: true, fallback: "RouteRef.println_route_ref",
			comment: "(the internal call the function ends in; RNone = none, RPanic = a run-time panic)", panicT: "RPanic", inlineVars: true,
			tymap: map[string]string{"[]any": "list garg", "any": "garg", "[]byte": "list Z"},
			calls: map[string]callSpec{
				"*Entry.log1":       {tail: "RLog1 %0 %1 %2", spread: true},
				"*Entry.logContext": {tail: "RLogContext %1 %3 %4", spread: true, lazy: true},
				"*Entry.printOut":   {tail: "RPrintOut %0 %1"},
				"fmt.Sprint":        {pure: "f_sprint %0"},
			},
			params: []string{"(as_string_of_any : garg -> option bytes)", "(f_sprint : garg -> bytes)", "(args : list garg)"},
			result: "route", final: "RNone"},
		// Entry.printImpl, its first statement: a blank Always record is handed to s.printOut (the delivery routine of
		// every record: writer selection, told level, error handling) as one line feed; what is delivered before the
		// formatting starts is the trace
		{pkg: slogPkg, recv: "Entry", fn: "printImpl", coq: "blank_line", file: "Routes", strict: true, fallback: "RouteRef.blank_line_ref",
			comment: "(the first statement: what is delivered before formatting starts, and how)", panicT: "[DPanic]", inlineVars: true, effects: []string{"tr_"},
			tymap: map[string]string{"[]byte": "list Z", "LogWriter": "option Z"},
			opaque: map[string]string{"pc.lvl": "pc_lvl", "pc.msg": "pc_msg"}, nilTest: map[string]string{"option Z": "is_nil"},
			calls: map[string]callSpec{
				"*Entry.printOut":     {ev: "DPrintOut %0 %1"},
				"*Entry.findWriter":   {pure: "f_findWriter %0"},
				"LogWriter.Write":     {ev: "DRawWrite %r %0", res: "(0, @None unit)"},
				"LWs.Write":           {ev: "DRawWrite None %0", res: "(0, @None unit)"},
				"strings.Trim":        {pure: "f_trim %0 %1"},
				"strings.TrimSpace":   {pure: "f_trim %0 [x20]"},
				"collectWrittenBytes": {ignore: true},
			},
			from: func(stmts []ast.Stmt) []ast.Stmt {
				if len(stmts) > 1 && containsText(stmts[0], "AlwaysLevel") {
					return stmts[:1]
				}
				return nil
			},
			params: []string{"(f_trim : bytes -> bytes -> bytes)", "(f_findWriter : Z -> option Z)", "(pc_lvl : Z)", "(pc_msg : bytes)", "(tr_ : list deliv)"},
			result: "list deliv", final: "tr_"},

		// ---- the std-log bridge (C14, C15): what NewLogLogger builds and what handlerWriter.Write does with it ----
		// NewLogLogger: the writer handed to log.New as the tuple of its four fields; the flags word, the levels of the
		// logger and io.Discard are part of the fragment, so that a construction-time decision is a different value
		{pkg: slogPkg, recv: "", fn: "NewLogLogger", coq: "new_log_logger", file: "Bridge", strict: true, fallback: "BridgeRef.new_log_logger_ref",
			comment: "(the writer, prefix and flags given to log.New)", panicT: "BridgeNone",
			tymap: map[string]string{"Logger": "Z", "handlerWriter": "Z * Z * bool * Z", "*handlerWriter": "Z * Z * bool * Z", "io.Writer": "Z * Z * bool * Z", "*log.Logger": "bridge"},
			opaque: map[string]string{"io.Discard": "w_discard"},
			calls: map[string]callSpec{
				"log.New":      {pure: "mk_bridge %0 %1 %2"},
				"IsAnyBitsSet": {pure: "(negb (Z.land g_flags %0 =? 0))"},
				"IsAllBitsSet": {pure: "(Z.land g_flags %0 =? %0)"},
				"Logger.Level": {pure: "f_level %r"},
				"GetLevel":     {pure: "g_deflevel"},
				// what the logger answers at CONSTRUCTION time (its gate, its skip count): oracles nothing is known about
				"Logger.Enabled": {pure: "f_cEnabled %r %0"},
				"Logger.Skip":    {pure: "f_cSkip %r"},
			},
			params: []string{"(f_level : Z -> Z)", "(f_cEnabled : Z -> Z -> bool)", "(f_cSkip : Z -> Z)", "(g_flags g_deflevel : Z)", "(h : Z)", "(lvl : Z)"}, result: "bridge", final: "BridgeNone"},
		// handlerWriter.Write whole: the logger is asked at WRITE time, the program counter is taken at depth 4 plus the
		// skip counts iff capturePC, the bytes go to WriteInternal at the bridge severity
		{pkg: slogPkg, recv: "handlerWriter", fn: "Write", coq: "bridge_write", file: "Bridge", strict: true, fallback: "BridgeRef.bridge_write_ref",
			comment: "(returns (n, err, trace of WriteInternal calls))", panicT: "(0, @None unit, [BWPanic])", effects: []string{"tr_"},
			tymap: map[string]string{"Logger": "Z", "LogLoggerAware": "Z", "uintptr": "Z", "[]byte": "bytes", "error": "option unit"},
			calls: map[string]callSpec{
				"Logger.Enabled":               {pure: "f_enabled %r %0"},
				"Logger.Skip":                  {pure: "f_skip %r"},
				"getpc":                        {pure: "f_getpc %0 %1"},
				"LogLoggerAware.WriteInternal": {ev: "BWInternal %r %1 %2 %3", res: "(w_n, w_e)", lazy: true},
			},
			params: []string{"(f_enabled : Z -> Z -> bool)", "(f_skip : Z -> Z)", "(f_getpc : Z -> Z -> Z)", "(as_LogLoggerAware_of_Logger : Z -> option Z)", "(w_n : Z)", "(w_e : option unit)",
				"(s_l s_lvl : Z)", "(s_capturePC : bool)", "(s_extraFrames : Z)", "(buf : bytes)", "(tr_ : list bwev)"},
			result: "Z * option unit * list bwev", final: "(n, err, tr_)"},

		// Entry.writeInternal (what the bridge's Write ends in): ONE final line feed is taken off, the whole length is
		// reported, the rest is printed as the message at the given level, instant and pc, without attributes
		{pkg: slogPkg, recv: "Entry", fn: "writeInternal", coq: "write_internal", file: "Bridge", strict: true, fallback: "BridgeRef.write_internal_ref",
			comment: "(returns (n, err, trace of print calls); None = a range panic)", panicT: "None", retfmt: "Some (%s)", effects: []string{"tr_"},
			tymap: map[string]string{"uintptr": "Z", "[]byte": "bytes", "error": "option unit", "time.Time": "Z", "Attrs": "list Z"},
			calls: map[string]callSpec{
				"time.Now":     {pure: "g_now"},
				"*Entry.print": {ev: "BWPrint %1 %2 %3 %4", lazy: true},
				// other ways to trim: oracles nothing is known about
				"strings.TrimRight": {pure: "f_trimRight %0 %1"}, "strings.TrimSuffix": {pure: "f_trimSuffix %0 %1"},
				"bytes.TrimRight": {pure: "f_trimRight %0 %1"}, "bytes.TrimSuffix": {pure: "f_trimSuffix %0 %1"},
			},
			params: []string{"(f_trimRight f_trimSuffix : bytes -> bytes -> bytes)", "(g_now : Z)", "(lvl stackFrame : Z)", "(buf : bytes)", "(tr_ : list bwev)"},
			result: "option (Z * option unit * list bwev)", final: "Some (n, err, tr_)"},

		// ---- the buffer methods of PrintCtx (C19) ----
		bufT("empty", "buf_empty", nil, "bool", "false", false),
		bufT("Len", "buf_len", nil, "Z", "0", false),
		bufT("Reset", "buf_reset", nil, "bres unit bstate", "", true),
		bufT("Truncate", "buf_truncate", []string{"(n : Z)"}, "bres unit bstate", "", true),
		bufT("Read", "buf_read", []string{"(p : gslice)"}, "bres (Z * err) (bstate * gslice)", "", true),
		bufT("Next", "buf_next", []string{"(n : Z)"}, "bres gslice bstate", "", true),
		bufT("ReadByte", "buf_read_byte", nil, "bres (Z * err) bstate", "", true),
		bufT("ReadRune", "buf_read_rune", nil, "bres (Z * Z * err) bstate", "", true),
		bufT("UnreadRune", "buf_unread_rune", nil, "bres err bstate", "", true),
		bufT("UnreadByte", "buf_unread_byte", nil, "bres err bstate", "", true),
		// the io.Writer is an oracle: it answers (w_m, w_e); what it was handed is the trace tr_
		// the write side: s.buf == nil and growSlice are oracles (f_isnil, f_growSlice)
		bufT("tryGrowByReslice", "buf_try_grow", []string{"(n : Z)"}, "bres (Z * bool) bstate", "", true),
		bufT("grow", "buf_grow_int", []string{"(f_isnil : gslice -> bool)", "(f_growSlice : gslice -> Z -> bres gslice unit)", "(n : Z)"}, "bres Z bstate", "", true),
		bufT("Grow", "buf_grow", []string{"(f_isnil : gslice -> bool)", "(f_growSlice : gslice -> Z -> bres gslice unit)", "(n : Z)"}, "bres unit bstate", "", true),
		bufT("Write", "buf_write", []string{"(f_isnil : gslice -> bool)", "(f_growSlice : gslice -> Z -> bres gslice unit)", "(p : gslice)"}, "bres (Z * err) bstate", "", true),
		bufT("WriteString", "buf_write_string", []string{"(f_isnil : gslice -> bool)", "(f_growSlice : gslice -> Z -> bres gslice unit)", "(str : bytes)"}, "bres (Z * err) bstate", "", true),
		bufT("WriteByte", "buf_write_byte", []string{"(f_isnil : gslice -> bool)", "(f_growSlice : gslice -> Z -> bres gslice unit)", "(c : Z)"}, "bres err bstate", "", true),
		bufT("WriteRune", "buf_write_rune", []string{"(f_isnil : gslice -> bool)", "(f_growSlice : gslice -> Z -> bres gslice unit)", "(r : Z)"}, "bres (Z * err) bstate", "", true),
		bufT("WriteTo", "buf_write_to", []string{"(w : unit)", "(w_m : Z)", "(w_e : err)", "(tr_ : list bytes)"}, "bres (Z * err) (bstate * list bytes)", "", true),
		// the io.Reader is a script (Model/Buffer.v rresp): an answer per call, delivered into the window it is handed,
		// which must be s.buf[..:cap(s.buf)] (checked): the bytes land in the spare capacity of s.buf
		bufT("ReadFrom", "buf_read_from", []string{"(f_isnil : gslice -> bool)", "(f_growSlice : gslice -> Z -> bres gslice unit)", "(f_errors_is : err -> err -> bool)", "(r : unit)", "(script_ : list rresp)"},
			"bres (Z * err) (bstate * list rresp)", "", true),
	}
}

// the fields of PrintCtx in declaration order, with their Coq types
var pcFields = [][2]string{{"buf", "gslice"}, {"off", "Z"}, {"lastRead", "Z"}, {"noQuoted", "bool"}, {"jsonMode", "bool"}, {"noColor", "bool"},
	{"layout", "bytes"}, {"utcTime", "Z"}, {"dedupeAttrs", "bool"}, {"lvl", "Z"}, {"msg", "bytes"}, {"firstLine", "bytes"}, {"restLines", "bytes"},
	{"eol", "bool"}, {"kvps", "list attr"}, {"clr", "Z"}, {"bg", "Z"}, {"now", "Z"}, {"stackFrame", "Z"}, {"cachedSource", "bytes * Z * bytes"},
	{"prefix", "bytes"}, {"inGroupedMode", "bool"}, {"skipFirstSep", "bool"}, {"valueStringer", "Z"}}

func pcFieldNames() []string {
	var out []string
	for _, f := range pcFields {
		out = append(out, "s_"+f[0])
	}
	return out
}

// pcT: setentry / set on ALL fields of the context; None = a slice expression out of range
func pcT(fn, coq string, params []string, calls map[string]callSpec) *target {
	var ps, tys []string
	for _, f := range pcFields {
		ps = append(ps, "(s_"+f[0]+" : "+f[1]+")")
		tys = append(tys, paren(f[1]))
	}
	tup := "(" + strings.Join(pcFieldNames(), ", ") + ")"
	return &target{pkg: slogPkg, recv: "PrintCtx", fn: fn, coq: coq, file: "Context", strict: true, fallback: "PcRef." + coq + "_ref",
		comment: "(returns every field of the context; None = panic)", panicT: "None", retfmt: "Some (%s)", effects: pcFieldNames(),
		tymap: map[string]string{"[]byte": "gslice", "Attrs": "list attr", "time.Time": "Z", "uintptr": "Z", "Source": "bytes * Z * bytes", "ValueStringer": "Z", "*Entry": "Z"},
		opaque: map[string]string{"e.useJSON": "e_useJSON", "e.useColor": "e_useColor", "e.timeLayout": "e_timeLayout", "e.modeUTC": "e_modeUTC",
			"e.valueStringer": "e_valueStringer", "e.level": "e_level", "e.attrs": "e_attrs"},
		calls: calls, params: append(ps, params...), result: "option (" + strings.Join(tys, " * ") + ")", final: "Some " + tup}
}

// bufT: a method of PrintCtx on the state (s.buf, s.off, s.lastRead).  A []byte is a gslice (visible part,
// spare capacity); the function ends in BOk results state / BRange state (an index or slice expression out
// of range) / BPanic v state (panic(v)); errors are the constants of Model/Buffer.v.
func bufT(fn, coq string, params []string, result, final string, eff bool) *target {
	t := &target{pkg: slogPkg, recv: "PrintCtx", fn: fn, coq: coq, file: "Buffers", strict: true, fallback: "BufRef." + coq + "_ref",
		tymap:  map[string]string{"[]byte": "gslice", "error": "err"},
		nils:   map[string]string{"err": "ENil"},
		opaque: map[string]string{"io.EOF": "EEOF", "errUnreadByte": "EUnreadByte", "io.ErrShortWrite": "EShortWrite", "ErrTooLarge": "p_toolarge", "errNegativeRead": "p_negread"},
		params: append([]string{"(s_buf : gslice)", "(s_off s_lastRead : Z)"}, params...), result: result, final: final,
		calls: map[string]callSpec{
			"*PrintCtx.empty":            {pure: "buf_empty s_buf s_off s_lastRead"},
			"*PrintCtx.Len":              {pure: "buf_len s_buf s_off s_lastRead"},
			"*PrintCtx.Reset":            {state: "buf_reset s_buf s_off s_lastRead", bres: true, sub: []string{"s_buf", "s_off", "s_lastRead"}},
			"errors.New":                 {pure: "EUnreadRune"},
			"*PrintCtx.tryGrowByReslice": {state: "buf_try_grow s_buf s_off s_lastRead %0", bres: true, sub: []string{"s_buf", "s_off", "s_lastRead"}},
			"*PrintCtx.grow":             {state: "buf_grow_int s_buf s_off s_lastRead f_isnil f_growSlice %0", bres: true, sub: []string{"s_buf", "s_off", "s_lastRead"}},
			"growSlice":                  {state: "f_growSlice %0 %1", bres: true},
			"*PrintCtx.WriteByte":        {state: "buf_write_byte s_buf s_off s_lastRead f_isnil f_growSlice %0", bres: true, sub: []string{"s_buf", "s_off", "s_lastRead"}, ignoreRes: true},
			// utf8.AppendRune(b, r) where the encoding fits into the spare capacity of b (None: it would reallocate - not modelled)
			"utf8.AppendRune":            {pure: "sl_append_in %0 (encode_rune %1)", partial: true},
			"utf8.DecodeRune":            {res: "decode_rune_z (sl_bytes %0)"},
			"utf8.DecodeRuneInString":    {res: "decode_rune_z %0"},
		}}
	if eff {
		t.effects = []string{"s_buf", "s_off", "s_lastRead"}
		st := "(s_buf, s_off, s_lastRead)"
		if fn == "Read" {
			t.effects = append(t.effects, "p")
			st = "(s_buf, s_off, s_lastRead, p)"
		}
		if fn == "WriteTo" {
			t.effects = append(t.effects, "tr_")
			st = "(s_buf, s_off, s_lastRead, tr_)"
			t.calls["io.Writer.Write"] = callSpec{res: "(w_m, w_e)", ev: "sl_bytes %0"}
			t.nilTest = map[string]string{"err": "err_is_enil"}
		}
		if fn == "ReadFrom" {
			t.effects = append(t.effects, "script_")
			st = "(s_buf, s_off, s_lastRead, script_)"
			t.fuels = []string{"S (List.length script_)"} // every round takes one answer of the script, or ends on the empty script
			t.calls["io.Reader.Read"] = callSpec{state: "rd_read s_buf script_ %0", bres: true, sub: []string{"s_buf", "script_"},
				check: func(x *tr, c *ast.CallExpr) string {
					if len(c.Args) == 1 {
						if se, ok := c.Args[0].(*ast.SliceExpr); ok && src(se.X) == "s.buf" && se.High != nil && src(se.High) == "cap(s.buf)" && !se.Slice3 {
							return ""
						}
					}
					return "Read into something else than s.buf[..:cap(s.buf)]"
				}}
			t.nilTest = map[string]string{"err": "err_is_enil"}
			// errors.Is is an oracle nothing is known about (it is NOT ==: it unwraps): using it is a different function
			t.calls["errors.Is"] = callSpec{pure: "f_errors_is %0 %1"}
		}
		if fn == "grow" {
			t.nilTest = map[string]string{"gslice": "f_isnil"}
		}
		t.panicT, t.panicFmt, t.okfmt = "BRange "+st, "BPanic %s "+st, "BOk (%s) %s"
		t.final = "BOk tt " + st
		if fn == "ReadFrom" {
			t.final = "BOk (n, err) " + st // (not reached: the loop has no exit but return and panic)
		}
		t.comment = "(BOk results state | BRange state | BPanic v state)"
	}
	return t
}

// asciiRuneArg: strings.IndexRune(s, r) is the index of the BYTE r only for a constant r < utf8.RuneSelf
func asciiRuneArg(x *tr, c *ast.CallExpr) string {
	if len(c.Args) == 2 {
		if tv, ok := x.p.TypesInfo.Types[c.Args[1]]; ok && tv.Value != nil && tv.Value.Kind() == constant.Int {
			if v, exact := constant.Int64Val(tv.Value); exact && v >= 0 && v < 128 {
				return ""
			}
		}
	}
	return "IndexRune with a rune that is not an ASCII constant"
}

// Go types of the delivery functions -> Coq types; a LogWriter is a member of a list in LWs.*, and
// whatever findWriter returned (nil, a list, a single writer) in printOut
func deliveryTypes(logWriter string) map[string]string {
	return map[string]string{"LogWriter": logWriter, "LWs": "list member", "LevelSettable": "wid", "*logwr": "wid", "io.Writer": "wid",
		"error": "error", "[]byte": "bytes"}
}

// the generated files of the translator: name, Require line
var genFiles = [][2]string{
	{"Decisions", "Require Import Verif.Model.Base Verif.Model.Decision Verif.Model.DecisionRef Verif.Model.Level."},
	{"Routing", "Require Import Verif.Model.Base Verif.Model.Decision Verif.Model.GoSem Verif.Model.Writers Verif.Model.GenRef."},
	{"Delivery", "Require Import Verif.Model.Base Verif.Model.Decision Verif.Model.GoSem Verif.Model.Writers Verif.Model.GenRef."},
	{"Assembly", "Require Import Verif.Model.Base Verif.Model.Decision Verif.Model.GoSem Verif.Model.Attrs Verif.Model.Collect Verif.Model.CollectRef."},
	{"Paths", "Require Import Verif.Model.Base Verif.Model.Decision Verif.Model.GoSem Verif.Model.Path Verif.Model.PathRef."},
	{"Escapes", "Require Import Verif.Model.Base Verif.Model.Decision Verif.Model.GoSem Verif.Model.Utf8 Verif.Model.EscRef."},
	{"Buffers", "Require Import Verif.Model.Base Verif.Model.Decision Verif.Model.GoSem Verif.Model.Utf8 Verif.Model.Buffer Verif.Model.BufRef."},
	{"Registry", "Require Import Verif.Model.Base Verif.Model.Decision Verif.Model.Dec Verif.Model.GoSem Verif.Model.Level Verif.Model.RegRef."},
	{"Loggers", "Require Import Verif.Model.Base Verif.Model.Decision Verif.Model.Dec Verif.Model.GoSem Verif.Model.TreeRef."},
	{"Handlers", "Require Import Verif.Model.Base Verif.Model.Decision Verif.Model.GoSem Verif.Model.AdaptRef."},
	{"Routes", "Require Import Verif.Model.Base Verif.Model.Decision Verif.Model.GoSem Verif.Model.TreeRef Verif.Model.RouteRef."},
	{"Bridge", "Require Import Verif.Model.Base Verif.Model.Decision Verif.Model.GoSem Verif.Model.BridgeRef."},
	{"Termination", "Require Import Verif.Model.Base Verif.Model.Decision Verif.Model.GoSem Verif.Model.Terminate Verif.Model.TermRef."},
	{"Context", "Require Import Verif.Model.Base Verif.Model.Decision Verif.Model.GoSem Verif.Model.Attrs Verif.Model.PcRef."},
	{"Colors", "Require Import Verif.Model.Base Verif.Model.Decision Verif.Model.Dec Verif.Model.GoSem Verif.Model.ColorRef."},
	{"Layout", "Require Import Verif.Model.Base Verif.Model.Decision Verif.Model.GoSem Verif.Model.LayoutRef.\nRequire Verif.Gen.Escapes Verif.Gen.Colors Verif.Gen.LevelNames."},
	{"LevelNames", "Require Import Verif.Model.Base Verif.Model.Decision Verif.Model.Dec Verif.Model.GoSem Verif.Model.LevelRef."},
}

func genDecisions(file, require string) string {
	var sb strings.Builder
	sb.WriteString("(* GENERATED from /repo by /verif/extract - do not edit.\n   Gallina translations of the decision functions (DESIGN.md appendix B).\n   A site outside the fragment falls back on the reference definition and is flagged [translated_* = false]. *)\n")
	sb.WriteString(require + "\n\n")
	for _, t := range targets() {
		if t.file != file && !(t.file == "" && file == "Decisions") {
			continue
		}
		def, ok, why := translate(t)
		if ok {
			sb.WriteString(def)
			sb.WriteString("Definition translated_" + t.coq + " := true.\n\n")
			site("decision:"+t.coq, "translated")
		} else {
			sb.WriteString("(* untranslatable: " + t.recv + "." + t.fn + ": " + commentSafe(why) + " *)\n")
			sb.WriteString("Definition " + t.coq + " := " + t.fallback + ".\n")
			sb.WriteString("Definition translated_" + t.coq + " := false.\n\n")
			site("decision:"+t.coq, "fallback: "+why)
		}
	}
	return sb.String()
}

// commentSafe: text that can stand inside a Coq comment (a double quote would open a string there)
func commentSafe(s string) string {
	s = strings.ReplaceAll(s, "*)", "* )")
	s = strings.ReplaceAll(s, "(*", "( *")
	return strings.ReplaceAll(s, "\"", "'")
}

// varInit: the initialiser expression of a package-level variable declared with one name and one value
func varInit(p *packages.Package, name string) ast.Expr {
	for _, f := range p.Syntax {
		for _, d := range f.Decls {
			gd, ok := d.(*ast.GenDecl)
			if !ok || gd.Tok != token.VAR {
				continue
			}
			for _, sp := range gd.Specs {
				if vs, ok := sp.(*ast.ValueSpec); ok && len(vs.Names) == 1 && len(vs.Values) == 1 && vs.Names[0].Name == name {
					return vs.Values[0]
				}
			}
		}
	}
	return nil
}
