package main

// CallerSites.v (C14): the constants of caller attribution that are not rows of
// the entry-point table:
//
//	getpc_callers_arg            the argument getpc hands to runtime.Callers, as a function of (skip, extra)
//	adapter_handle_callers_arg   handler4LogSlog.Handle: the argument of its own runtime.Callers call, as a function of ei
//	adapter_handle_reads_skip    ... and whether ei is read from the logger's Skip()
//	adapter_bridge_getpc_skip    handlerWriter.Write: the literal given to getpc
//	adapter_bridge_own_extra     the extraFrames NewLogLogger stores in the handlerWriter
//	adapter_bridge_reads_skip    whether Write consults the logger's Skip()

import (
	"fmt"
	"go/ast"
	"go/constant"
	"go/token"
	"strings"
)

// exprZ translates an integer expression over the given identifiers (+, -, literals, parentheses).
func exprZ(e ast.Expr, vars map[string]string) (string, bool) {
	switch x := e.(type) {
	case *ast.ParenExpr:
		s, ok := exprZ(x.X, vars)
		return "(" + s + ")", ok
	case *ast.BasicLit:
		if x.Kind == token.INT {
			if v, ok := constOf(pSlog, x); ok && v.Kind() == constant.Int {
				return cZ(v.ExactString()), true
			}
		}
	case *ast.Ident:
		if v, ok := vars[x.Name]; ok {
			return v, true
		}
		if v, ok := constOf(pSlog, x); ok && v.Kind() == constant.Int {
			return cZ(v.ExactString()), true
		}
	case *ast.BinaryExpr:
		if x.Op == token.ADD || x.Op == token.SUB {
			l, ok1 := exprZ(x.X, vars)
			r, ok2 := exprZ(x.Y, vars)
			if ok1 && ok2 {
				return l + " " + x.Op.String() + " " + r, true
			}
		}
	}
	return "", false
}

// firstCall returns the first call of a function/method with the given name in the body.
func firstCall(body ast.Node, name string) *ast.CallExpr {
	var found *ast.CallExpr
	ast.Inspect(body, func(n ast.Node) bool {
		if c, ok := n.(*ast.CallExpr); ok && found == nil && calleeName(c) == name {
			found = c
		}
		return found == nil
	})
	return found
}

func genCallerSites() string {
	var sb strings.Builder
	sb.WriteString("(* GENERATED from /repo by /verif/extract - do not edit.  Caller-attribution constants outside the entry-point table (C14). *)\nRequire Import Verif.Model.Base.\n\n")
	miss := func(name, why string) {
		fmt.Fprintf(&sb, "(* %s: %s *)\n", name, why)
		site("caller:"+name, why)
	}
	// getpc
	if fd := findFunc(pSlog, "", "getpc"); fd == nil {
		miss("getpc_callers_arg", "missing")
	} else if c := firstCall(fd.Body, "Callers"); c == nil || len(c.Args) == 0 || fd.Type.Params.NumFields() != 2 {
		miss("getpc_callers_arg", "no runtime.Callers call with two parameters")
	} else {
		var ps []string
		for _, f := range fd.Type.Params.List {
			for _, n := range f.Names {
				ps = append(ps, n.Name)
			}
		}
		if s, ok := exprZ(c.Args[0], map[string]string{ps[0]: "skip", ps[1]: "extra"}); ok {
			fmt.Fprintf(&sb, "Definition getpc_callers_arg (skip extra : Z) : Z := %s.  (* getpc: runtime.Callers(%s, ...) *)\n", s, src(c.Args[0]))
			site("caller:getpc_callers_arg", "ok")
		} else {
			miss("getpc_callers_arg", "outside the fragment: "+src(c.Args[0]))
		}
	}
	// handler4LogSlog.Handle
	if fd := findFunc(pSlog, "handler4LogSlog", "Handle"); fd == nil {
		miss("adapter_handle_callers_arg", "missing")
	} else if c := firstCall(fd.Body, "Callers"); c == nil || len(c.Args) == 0 {
		miss("adapter_handle_callers_arg", "no runtime.Callers call")
	} else {
		// the free identifier of the argument (ei) and whether it is assigned from a Skip() call
		free := ""
		ast.Inspect(c.Args[0], func(n ast.Node) bool {
			if id, ok := n.(*ast.Ident); ok {
				if _, isConst := constOf(pSlog, id); !isConst {
					free = id.Name
				}
			}
			return true
		})
		reads := false
		ast.Inspect(fd.Body, func(n ast.Node) bool {
			if as, ok := n.(*ast.AssignStmt); ok && len(as.Lhs) == 1 && len(as.Rhs) == 1 {
				if l, ok := as.Lhs[0].(*ast.Ident); ok && l.Name == free {
					if cc, ok := as.Rhs[0].(*ast.CallExpr); ok && calleeName(cc) == "Skip" {
						reads = true
					}
				}
			}
			return true
		})
		vars := map[string]string{}
		if free != "" {
			vars[free] = "ei"
		}
		if s, ok := exprZ(c.Args[0], vars); ok {
			fmt.Fprintf(&sb, "Definition adapter_handle_callers_arg (ei : Z) : Z := %s.  (* handler4LogSlog.Handle: runtime.Callers(%s, ...) *)\n", s, src(c.Args[0]))
			fmt.Fprintf(&sb, "Definition adapter_handle_reads_skip : bool := %v.  (* %s is assigned from the logger's Skip() *)\n", reads, free)
			site("caller:adapter_handle_callers_arg", "ok")
		} else {
			miss("adapter_handle_callers_arg", "outside the fragment: "+src(c.Args[0]))
		}
	}
	// handlerWriter.Write
	if fd := findFunc(pSlog, "handlerWriter", "Write"); fd == nil {
		miss("adapter_bridge_getpc_skip", "missing")
	} else if c := firstCall(fd.Body, "getpc"); c == nil || len(c.Args) != 2 {
		miss("adapter_bridge_getpc_skip", "no getpc call")
	} else if s, ok := exprZ(c.Args[0], nil); !ok {
		miss("adapter_bridge_getpc_skip", "outside the fragment: "+src(c.Args[0]))
	} else {
		fmt.Fprintf(&sb, "Definition adapter_bridge_getpc_skip : Z := %s.  (* handlerWriter.Write: getpc(%s, %s) *)\n", s, src(c.Args[0]), src(c.Args[1]))
		fmt.Fprintf(&sb, "Definition adapter_bridge_reads_skip : bool := %v.  (* Write consults the logger's Skip() *)\n", firstCall(fd.Body, "Skip") != nil)
		site("caller:adapter_bridge_getpc_skip", "ok")
		// the extraFrames stored by NewLogLogger
		own := ""
		if nl := findFunc(pSlog, "", "NewLogLogger"); nl != nil {
			ast.Inspect(nl.Body, func(n ast.Node) bool {
				cl, ok := n.(*ast.CompositeLit)
				if !ok || src(cl.Type) != "handlerWriter" {
					return true
				}
				own = "0" // a field that is not mentioned is zero
				for i, el := range cl.Elts {
					if kv, ok := el.(*ast.KeyValueExpr); ok {
						if src(kv.Key) == "extraFrames" {
							own, _ = exprZ(kv.Value, nil)
						}
					} else if i == 3 { // positional: l, lvl, capturePC, extraFrames
						own, _ = exprZ(el, nil)
					}
				}
				return false
			})
		}
		if own == "" {
			miss("adapter_bridge_own_extra", "NewLogLogger's handlerWriter literal not found")
		} else {
			fmt.Fprintf(&sb, "Definition adapter_bridge_own_extra : Z := %s.  (* NewLogLogger: handlerWriter.extraFrames *)\n", own)
			site("caller:adapter_bridge_own_extra", "ok")
		}
	}
	return sb.String()
}
