package main

// Gen/PrintCtxFields.v (property C09): the fields of `type PrintCtx struct`, the
// fields PrintCtx.setentry / PrintCtx.set assign, and where else in package slog
// a field of a PrintCtx is written or read.

import (
	"fmt"
	"go/ast"
	"go/token"
	"go/types"
	"sort"
	"strings"
)

func isPrintCtx(t types.Type) bool {
	if t == nil {
		return false
	}
	if p, ok := t.(*types.Pointer); ok {
		t = p.Elem()
	}
	n, ok := t.(*types.Named)
	return ok && n.Obj().Name() == "PrintCtx" && n.Obj().Pkg() != nil && n.Obj().Pkg() == pSlog.Types
}

// pcField returns the field name when e is `x.f` with x a (pointer to) PrintCtx and f a field.
func pcField(e ast.Expr) (string, bool) {
	for {
		switch z := e.(type) {
		case *ast.ParenExpr:
			e = z.X
			continue
		case *ast.IndexExpr: // s.buf[i] = ..
			e = z.X
			continue
		case *ast.SliceExpr:
			e = z.X
			continue
		}
		break
	}
	se, ok := e.(*ast.SelectorExpr)
	if !ok {
		return "", false
	}
	sel := pSlog.TypesInfo.Selections[se]
	if sel == nil || sel.Kind() != types.FieldVal {
		// x.f.g: a field of a field counts as its outermost PrintCtx field
		if inner, ok2 := se.X.(*ast.SelectorExpr); ok2 {
			return pcField(inner)
		}
		return "", false
	}
	if isPrintCtx(sel.Recv()) {
		return se.Sel.Name, true
	}
	if inner, ok2 := se.X.(*ast.SelectorExpr); ok2 {
		return pcField(inner)
	}
	return "", false
}

func genPrintCtxFields() string {
	var sb strings.Builder
	sb.WriteString("(* GENERATED from /repo by /verif/extract - do not edit.\n   The fields of `type PrintCtx struct` (slog/pc.go) in declaration order, the fields assigned by\n   PrintCtx.setentry and PrintCtx.set, the fields written anywhere else in the non-test files of package\n   slog (assignment, ++/--, address taken, pointer-receiver method called on the field; constructors'\n   composite literals excluded) and the fields read anywhere. *)\nRequire Import Verif.Model.Base.\n\n")
	// ---- the struct
	var fields []string
	obj := pSlog.Types.Scope().Lookup("PrintCtx")
	if obj == nil {
		site("PrintCtx", "type not found")
		return sb.String() + "Definition pc_fields : list bytes := [].\nDefinition pc_set_fields : list bytes := [].\nDefinition pc_written_outside_set : list bytes := [].\nDefinition pc_read_fields : list bytes := [].\n"
	}
	st, ok := obj.Type().Underlying().(*types.Struct)
	if !ok {
		site("PrintCtx", "not a struct")
		return sb.String() + "Definition pc_fields : list bytes := [].\nDefinition pc_set_fields : list bytes := [].\nDefinition pc_written_outside_set : list bytes := [].\nDefinition pc_read_fields : list bytes := [].\n"
	}
	for i := 0; i < st.NumFields(); i++ {
		fields = append(fields, st.Field(i).Name())
	}
	// ---- walk every function
	setF := []string{}
	seenSet := map[string]bool{}
	written := map[string]bool{}
	read := map[string]bool{}
	for _, f := range pSlog.Syntax {
		fname := fset.Position(f.Pos()).Filename
		if strings.HasSuffix(fname, "_test.go") || strings.Contains(fname, "zz_verif_") {
			continue
		}
		for _, d := range f.Decls {
			fd, ok := d.(*ast.FuncDecl)
			if !ok || fd.Body == nil {
				continue
			}
			inSet := false
			if fd.Recv != nil && (fd.Name.Name == "setentry" || fd.Name.Name == "set") {
				if tv, ok := pSlog.TypesInfo.Types[fd.Recv.List[0].Type]; ok && isPrintCtx(tv.Type) {
					inSet = true
				}
			}
			lhs := map[ast.Expr]bool{} // selector expressions in pure assignment position
			noteWrite := func(e ast.Expr) {
				if name, ok := pcField(e); ok {
					if inSet {
						if !seenSet[name] {
							seenSet[name] = true
							setF = append(setF, name)
						}
					} else {
						written[name] = true
					}
				}
			}
			ast.Inspect(fd.Body, func(n ast.Node) bool {
				switch x := n.(type) {
				case *ast.AssignStmt:
					for _, l := range x.Lhs {
						noteWrite(l)
						if x.Tok == token.ASSIGN || x.Tok == token.DEFINE {
							if se, ok := l.(*ast.SelectorExpr); ok {
								lhs[se] = true
							}
						}
					}
				case *ast.IncDecStmt:
					noteWrite(x.X)
				case *ast.UnaryExpr:
					if x.Op == token.AND {
						noteWrite(x.X)
					}
				case *ast.CallExpr:
					// x.f.M(..) with M on a pointer receiver writes (may write) x.f
					if se, ok := x.Fun.(*ast.SelectorExpr); ok {
						if sel := pSlog.TypesInfo.Selections[se]; sel != nil && sel.Kind() == types.MethodVal {
							if fn, ok := sel.Obj().(*types.Func); ok {
								if sig, ok := fn.Type().(*types.Signature); ok && sig.Recv() != nil {
									if _, ptr := sig.Recv().Type().(*types.Pointer); ptr {
										if inner, ok := se.X.(*ast.SelectorExpr); ok {
											noteWrite(inner)
										}
									}
								}
							}
						}
					}
				}
				return true
			})
			ast.Inspect(fd.Body, func(n ast.Node) bool {
				if se, ok := n.(*ast.SelectorExpr); ok && !lhs[se] {
					if sel := pSlog.TypesInfo.Selections[se]; sel != nil && sel.Kind() == types.FieldVal && isPrintCtx(sel.Recv()) {
						read[se.Sel.Name] = true
					}
				}
				return true
			})
		}
	}
	list := func(name string, l []string) {
		fmt.Fprintf(&sb, "Definition %s : list bytes := [\n", name)
		for i, s := range l {
			sep := ";"
			if i == len(l)-1 {
				sep = ""
			}
			fmt.Fprintf(&sb, "  %s%s (* %s *)\n", cBytes(s), sep, s)
		}
		sb.WriteString("].\n")
	}
	keys := func(m map[string]bool) []string {
		var l []string
		for k := range m {
			l = append(l, k)
		}
		sort.Strings(l)
		return l
	}
	list("pc_fields", fields)
	list("pc_set_fields", setF)
	list("pc_written_outside_set", keys(written))
	list("pc_read_fields", keys(read))
	site("PrintCtx", fmt.Sprintf("%d fields, %d assigned by set/setentry", len(fields), len(setF)))
	return sb.String()
}
