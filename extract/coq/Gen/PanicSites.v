(* GENERATED from /repo by /verif/extract - do not edit.
   Every panic( call, os.Exit( call and single-value type assertion in the non-test files of package slog. *)
Require Import Verif.Model.Base.

Inductive site_kind := SPanic | SExit | SAssert.
Definition panic_sites : list (bytes * site_kind) := [
  ([x45;x6e;x74;x72;x79;x2e;x6c;x6f;x67;x43;x6f;x6e;x74;x65;x78;x74], SAssert); (* Entry.logContext *)
  ([x45;x6e;x74;x72;x79;x2e;x6c;x6f;x67;x43;x6f;x6e;x74;x65;x78;x74], SExit); (* Entry.logContext *)
  ([x45;x6e;x74;x72;x79;x2e;x6c;x6f;x67;x43;x6f;x6e;x74;x65;x78;x74], SPanic); (* Entry.logContext *)
  ([x45;x6e;x74;x72;x79;x2e;x70;x72;x69;x6e;x74], SAssert); (* Entry.print *)
  ([x4c;x65;x76;x65;x6c;x2e;x53;x68;x6f;x72;x74;x54;x61;x67], SPanic); (* Level.ShortTag *)
  ([x50;x72;x69;x6e;x74;x43;x74;x78;x2e;x47;x72;x6f;x77], SPanic); (* PrintCtx.Grow *)
  ([x50;x72;x69;x6e;x74;x43;x74;x78;x2e;x52;x65;x61;x64;x46;x72;x6f;x6d], SPanic); (* PrintCtx.ReadFrom *)
  ([x50;x72;x69;x6e;x74;x43;x74;x78;x2e;x54;x72;x75;x6e;x63;x61;x74;x65], SPanic); (* PrintCtx.Truncate *)
  ([x50;x72;x69;x6e;x74;x43;x74;x78;x2e;x57;x72;x69;x74;x65;x54;x6f], SPanic); (* PrintCtx.WriteTo *)
  ([x50;x72;x69;x6e;x74;x43;x74;x78;x2e;x67;x72;x6f;x77], SPanic); (* PrintCtx.grow *)
  ([x67;x6b;x76;x70;x2e;x53;x65;x74;x56;x61;x6c;x75;x65], SPanic); (* gkvp.SetValue *)
  ([x67;x72;x6f;x77;x53;x6c;x69;x63;x65], SPanic); (* growSlice *)
  ([x73;x65;x72;x69;x61;x6c;x69;x7a;x65;x41;x74;x74;x72;x73], SPanic) (* serializeAttrs *)
].
