(* GENERATED from /repo by /verif/extract - do not edit.
   Gallina translations of the decision functions (DESIGN.md appendix B).
   A site outside the fragment falls back on the reference definition and is flagged [translated_* = false]. *)
Require Import Verif.Model.Base Verif.Model.Decision Verif.Model.DecisionRef Verif.Model.Level.

(* Level.Enabled   *)
Definition enabled (m_mLevelIsEnabledAs : list (Z * Z)) (g_debugmode : bool) (level testingLevel : Z) : bool :=
  if ((level =? 7) || (testingLevel =? 7))
  then false
  else if ((level =? 8) || (testingLevel =? 8))
  then true
  else if (g_debugmode && (testingLevel =? 5))
  then true
  else match lookupZ m_mLevelIsEnabledAs testingLevel with
  | Some l => let testingLevel := l in
  (testingLevel <=? level)
  | None => let l := 0 in (testingLevel <=? level)
  end.
Definition translated_enabled := true.

(* Entry.SetJSONMode   *)
Definition set_json_mode (s_useJSON s_useColor : bool) (b : list bool) : bool * bool :=
  let mode := true in
  let mode := fold_left (fun mode (bb : bool) => let mode := bb in
  mode) b mode in
  if mode
  then let s_useColor := false in
  let s_useJSON := mode in
  (s_useJSON, s_useColor)
  else let s_useJSON := mode in
  (s_useJSON, s_useColor).
Definition translated_set_json_mode := true.

(* Entry.SetColorMode   *)
Definition set_color_mode (s_useJSON s_useColor : bool) (b : list bool) : bool * bool :=
  let mode := true in
  let mode := fold_left (fun mode (bb : bool) => let mode := bb in
  mode) b mode in
  let s_useJSON := false in
  let s_useColor := mode in
  (s_useJSON, s_useColor).
Definition translated_set_color_mode := true.

(* Entry.SetUTCMode   *)
Definition set_utc_mode (b : list bool) : Z :=
  let mode := 2 in
  let mode := fold_left (fun mode (bb : bool) => if bb
  then let mode := 2 in
  mode
  else let mode := 1 in
  mode) b mode in
  let s_modeUTC := mode in
  s_modeUTC.
Definition translated_set_utc_mode := true.

(* Entry.SetTimeFormat   *)
Definition set_time_format (layout : list bytes) : bytes :=
  let lay := [x32;x30;x30;x36;x2d;x30;x31;x2d;x30;x32;x54;x31;x35;x3a;x30;x34;x3a;x30;x35;x2e;x39;x39;x39;x39;x39;x39;x39;x39;x39;x5a;x30;x37;x3a;x30;x30] in
  let lay := fold_left (fun lay (ll : bytes) => if (negb (bytes_eqb ll []))
  then let lay := ll in
  lay
  else lay) layout lay in
  let s_timeLayout := lay in
  s_timeLayout.
Definition translated_set_time_format := true.

(* Entry.SetLevel   *)
Definition set_level (g_debugmode g_tracemode : bool) (lvl : Z) : Z * bool * bool :=
  let s_level := lvl in
  if (lvl =? 5) then if (negb g_debugmode)
  then let g_debugmode := true in
  (s_level, g_debugmode, g_tracemode)
  else (s_level, g_debugmode, g_tracemode)
  else if (lvl =? 6) then if (negb g_tracemode)
  then let g_tracemode := true in
  (s_level, g_debugmode, g_tracemode)
  else (s_level, g_debugmode, g_tracemode)
  else (s_level, g_debugmode, g_tracemode).
Definition translated_set_level := true.

(* PrintCtx.setentry   *)
   (* ignored (untracked field): s.buf = s.buf[:0] *)
   (* ignored (untracked field): s.off = 0 *)
   (* ignored (untracked field): s.lastRead = opInvalid *)
   (* ignored (untracked fields): s.clr, s.bg = clrBasic, clrNone *)
   (* ignored (untracked field): s.prefix = "" *)
   (* ignored (untracked field): s.inGroupedMode = false *)
   (* ignored (untracked field): s.skipFirstSep = false *)
   (* ignored (untracked fields): s.firstLine, s.restLines, s.eol = "", "", false *)
   (* ignored (untracked field): s.layout = e.timeLayout *)
   (* ignored (untracked field): s.utcTime = e.modeUTC *)
   (* ignored (untracked field): s.valueStringer = e.valueStringer *)
   (* ignored (untracked field): s.lvl = e.level *)
   (* ignored (untracked field): s.kvps = e.attrs *)
Definition pc_setentry (e_useJSON e_useColor : bool) : bool * bool :=
  let s_jsonMode := e_useJSON in
  let useColor := e_useColor in
  if (e_useJSON && useColor)
  then let useColor := false in
  let s_noColor := (negb useColor) in
  (s_jsonMode, s_noColor)
  else let s_noColor := (negb useColor) in
  (s_jsonMode, s_noColor).
Definition translated_pc_setentry := true.

(* Entry.logContext  (the tail after print) *)
Definition termination (g_inTesting : bool) (g_flags : Z) (lvl : Z) : action :=
  if ((negb g_inTesting) || (negb (Z.land g_flags 2097152 =? 0)))
  then if (Z.land g_flags 1048576 =? 1048576)
  then ActContinue
  else if (lvl =? 0)
  then ActPanic
  else if (lvl =? 1)
  then (ActExit (-3))
  else ActContinue
  else ActContinue.
Definition translated_termination := true.

(* Entry.printOut  (condition of the nested diagnostic) *)
Definition should_warn (err : option unit) (lvl : Z) : bool :=
  ((negb (is_nil err)) && (negb (lvl =? 3))).
Definition translated_should_warn := true.

(* handlerWriter.Write  (admission test of the std-log bridge) *)
Definition bridge_admit (f_enabled : Z -> bool) (s_lvl s_l_level : Z) : bool :=
  (f_enabled s_lvl).
Definition translated_bridge_admit := true.

(* handler4LogSlog.Enabled   *)
Definition handler_enabled (m_mLogSlogLevelToLevel : list (Z * Z)) (f_enabled : Z -> bool) (lvl : Z) : bool :=
  match lookupZ m_mLogSlogLevelToLevel lvl with
  | Some l => (f_enabled l)
  | None => let l := 0 in true
  end.
Definition translated_handler_enabled := true.

(* .convertLogSlogLevel   *)
Definition convert_logslog_level (m_mLogSlogLevelToLevel : list (Z * Z)) (lvl : Z) : Z :=
  match lookupZ m_mLogSlogLevelToLevel lvl with
  | Some l => l
  | None => let l := 0 in 8
  end.
Definition translated_convert_logslog_level := true.

(* .convertLevelToLogSlog   *)
Definition convert_level_to_logslog (m_mLevelToLogSlog : list (Z * Z)) (lvl : Z) : Z :=
  match lookupZ m_mLevelToLogSlog lvl with
  | Some l => l
  | None => let l := 0 in 0
  end.
Definition translated_convert_level_to_logslog := true.

(* .logsloglevel2Level   *)
Definition logsloglevel2level (level : Z) : Z :=
  if (level =? (-4)) then 5
  else if (level =? 0) then 4
  else if (level =? 4) then 3
  else if (level =? 8) then 2
  else if (level =? (-16)) then 6
  else if (level =? (-8)) then 6
  else if (level =? 2) then 4
  else if (level =? 3) then 4
  else if (level =? 16) then 1
  else if (level =? 17) then 0
  else if (level <? (-4))
  then 6
  else if (level <? 0)
  then 5
  else if (level <? 4)
  then 4
  else if (level <? 8)
  then 3
  else 2.
Definition translated_logsloglevel2level := true.

(* PrintCtx.appendTimestamp   *)
Definition zone_choice (s_utcTime : Z) (g_flags : Z) : zone :=
  if ((s_utcTime =? 2) || (((s_utcTime =? 0) && ((Z.land g_flags 8) =? 0))))
  then let tm := ZoneUTC in
  tm
  else let tm := ZoneOwn in
  tm.
Definition translated_zone_choice := true.

(* PrintCtx.appendTimestamp   *)
Definition layout_choice (m_defaultLayouts : list (Z * bytes)) (s_layout : bytes) (g_flags : Z) : bytes :=
  let layout := (@nil byte) in
  if (negb (bytes_eqb s_layout []))
  then let layout := s_layout in
  layout
  else let ok := false in
  match lookupZ m_defaultLayouts (Z.land g_flags 7) with
  | Some layout => layout
  | None => let layout := (@nil byte) in let layout := [x31;x35;x3a;x30;x34;x3a;x30;x35;x2e;x30;x30;x30;x30;x30;x30;x5a;x30;x37;x3a;x30;x30] in
  layout
  end.
Definition translated_layout_choice := true.

