(* GENERATED from /repo by /verif/extract - do not edit.  Caller-attribution constants outside the entry-point table (C14). *)
Require Import Verif.Model.Base.

Definition getpc_callers_arg (skip extra : Z) : Z := skip + extra + 1.  (* getpc: runtime.Callers(skip + extra + 1, ...) *)
Definition adapter_handle_callers_arg (ei : Z) : Z := 3 + 1 + ei.  (* handler4LogSlog.Handle: runtime.Callers(3 + 1 + ei, ...) *)
Definition adapter_handle_reads_skip : bool := true.  (* ei is assigned from the logger's Skip() *)
Definition adapter_bridge_getpc_skip : Z := 4.  (* handlerWriter.Write: getpc(4, s.extraFrames + s.l.Skip()) *)
Definition adapter_bridge_reads_skip : bool := true.  (* Write consults the logger's Skip() *)
Definition adapter_bridge_own_extra : Z := 0.  (* NewLogLogger: handlerWriter.extraFrames *)
